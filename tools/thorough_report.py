#!/usr/bin/env python3
"""Summarises the logs of a thorough sweep (.work/run_thorough_<id>.log) into THOROUGH.md."""
import re, glob, os, subprocess
root = os.path.dirname(os.path.dirname(os.path.abspath(__file__)))
rows, reduced = [], []
for f in sorted(glob.glob(os.path.join(root, ".work", "run_thorough_C*.log"))):
    pid = re.search(r"run_thorough_(C\d\d)", f).group(1)
    lines = [l.rstrip("\n") for l in open(f) if "WARNING conda" not in l]
    last = next((l for l in reversed(lines) if l.startswith(pid + ":")), "(did not finish)")
    rows.append("| %s | %s |" % (pid, last.split(": ", 1)[-1]))
    for l in lines:
        m = re.match(r"\s+(\S+)\s+paths=(\d+).*\(budget exhausted: not claimed\)", l)
        if m:
            reduced.append("* %s `%s` — budget exhausted after %s paths; explored completely at the quick bounds instead" % (pid, m.group(1), m.group(2)))
commit = subprocess.run(["git", "-C", root, "rev-parse", "--short", "HEAD"], capture_output=True, text=True).stdout.strip()
repo = subprocess.run(["git", "-C", "/repo", "rev-parse", "--short", "HEAD"], capture_output=True, text=True).stdout.strip()
out = ["# Thorough tier — last complete sweep", "",
       "Produced by `tools/runsome.sh thorough …` + `tools/thorough_report.py` on the unchanged tree (/repo %s, /verif around %s), 16 cores shared with another job, so wall times are upper bounds." % (repo, commit), "",
       "| property | result |", "|---|---|"] + rows + ["",
       "## Variants not claimed at the thorough bounds", "",
       "Budget per harness variant: 200 000 paths or 4 minutes. These are reported in each evidence file under `coverage.bounds_reduced`.", ""] + (reduced or ["(none)"])
open(os.path.join(root, "THOROUGH.md"), "w").write("\n".join(out) + "\n")
print("\n".join(out[:30]))
