#!/bin/sh
# usage (inside a `vp run --with-repo` snapshot, cwd = snapshot of /verif): tools/bg_sweep.sh <tier> <limit seconds> <id>...
# Runs the given checks against the snapshot of /repo, never against /repo itself (which may carry a seeded change at the time).
export GOFLAGS=-mod=mod GOPROXY=off GOSUMDB=off GOTOOLCHAIN=local
TIER=$1; LIMIT=$2; shift 2
export VERIF_ROOT=$PWD VERIF_REPO=${VP_RUN_REPO:-/repo}
sed -i "s|^replace github.com/philpearl/plenc => .*|replace github.com/philpearl/plenc => $VERIF_REPO|" harness/go.mod
mkdir -p .work
bin/setup || exit 2
for id in "$@"; do
  t0=$(date +%s)
  timeout $LIMIT bin/check $id --tier $TIER > .work/run_${TIER}_$id.log 2>&1
  rc=$?
  echo "$id exit=$rc wall=$(( $(date +%s) - t0 ))s $(tail -1 .work/run_${TIER}_$id.log | cut -c1-200)"
  grep -E "^(VIOLATION|KNOWN-FINDING|INCONCLUSIVE|ENCODER-MISMATCH|UNSUPPORTED)" .work/run_${TIER}_$id.log | head -5
done
