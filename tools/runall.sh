#!/bin/sh
# runs every registered check in the given tier (default quick), prints exit codes
TIER=${1:-quick}
LIMIT=${2:-7200}
mkdir -p /verif/.work
for id in $(python3 -c "import json;print(' '.join(c['property_id'] for c in json.load(open('/verif/MANIFEST.json'))['checks']))"); do
  t0=$(date +%s)
  timeout $LIMIT /verif/bin/check $id --tier $TIER > /verif/.work/run_${TIER}_$id.log 2>&1
  rc=$?
  echo "$id exit=$rc wall=$(( $(date +%s) - t0 ))s $(tail -1 /verif/.work/run_${TIER}_$id.log | cut -c1-200)"
done
