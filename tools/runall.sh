#!/bin/sh
# runs every registered quick (or $1) check, prints exit codes
TIER=${1:-quick}
for id in $(python3 -c "import json;print(' '.join(c['property_id'] for c in json.load(open('/verif/MANIFEST.json'))['checks']))"); do
  /verif/bin/check $id --tier $TIER > /verif/.work/run_$id.log 2>&1
  echo "$id exit=$? $(tail -1 /verif/.work/run_$id.log)"
done
