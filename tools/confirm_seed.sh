#!/bin/sh
# usage: confirm_seed.sh <seed dir containing patch.diff, demo test, demo_location.txt>
# Confirms in a scratch worktree: suite passes with the change, demo fails with it, demo passes without it.
export GOFLAGS=-mod=mod GOPROXY=off GOSUMDB=off GOTOOLCHAIN=local
D="$1"
WT=/tmp/confirm_wt_$$
git -C /repo worktree add -q --detach "$WT" HEAD || exit 2
trap 'git -C /repo worktree remove --force "$WT" >/dev/null 2>&1' EXIT
LOC=$(head -1 "$D/demo_location.txt" | awk '{print $1}')
DEMO=$(ls "$D"/*_test.go | head -1)
cd "$WT"
git apply "$D/patch.diff" || { echo "PATCH-DOES-NOT-APPLY"; exit 3; }
go build ./... || { echo "BUILD-FAILS"; exit 3; }
ok=0
for i in 1 2 3; do
  if go test -vet=off -count=1 ./... >/tmp/confirm_suite_$$.log 2>&1; then ok=1; break; fi
done
[ $ok = 1 ] && echo "suite-with-change: PASS" || { echo "suite-with-change: FAIL"; grep -E "^(--- FAIL|FAIL)" /tmp/confirm_suite_$$.log | head; }
mkdir -p "$(dirname "$LOC")"; cp "$DEMO" "$LOC"
PKG=./$(dirname "$LOC")
if timeout 120 go test -vet=off -count=1 -timeout 60s -run TestZZDemo "$PKG" >/tmp/confirm_demo_$$.log 2>&1; then echo "demo-with-change: PASS (bad)"; else echo "demo-with-change: FAIL (good)"; fi
git apply -R "$D/patch.diff"
if timeout 120 go test -vet=off -count=1 -timeout 60s -run TestZZDemo "$PKG" >/tmp/confirm_demo2_$$.log 2>&1; then echo "demo-without-change: PASS (good)"; else echo "demo-without-change: FAIL (bad)"; tail -5 /tmp/confirm_demo2_$$.log; fi
rm -f /tmp/confirm_*_$$.log
