#!/bin/sh
# usage: run_seed.sh <patch.diff> <property id> [more ids...]
# Applies the change to /repo, runs the given checks (quick), restores /repo.
P="$1"; shift
git -C /repo diff --quiet || { echo "/repo is dirty"; exit 2; }
git -C /repo apply "$P" || { echo "patch does not apply"; exit 2; }
for id in "$@"; do
  /verif/bin/check $id --tier quick > /verif/.work/seed_$id.log 2>&1
  rc=$?
  echo "  check $id: exit=$rc $(grep -c '^VIOLATION' /verif/.work/seed_$id.log) violation line(s); $(grep -m1 -A1 '^VIOLATION' /verif/.work/seed_$id.log | tail -1 | cut -c1-220)"
  [ $rc = 2 ] && grep -m3 "^INCONCLUSIVE\|^UNSUPPORTED" /verif/.work/seed_$id.log | cut -c1-300
done
git -C /repo checkout -- .
