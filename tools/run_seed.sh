#!/bin/sh
# usage: run_seed.sh <patch.diff> <property id> [more ids...]
# Applies the change to /repo, runs the given checks (quick), restores /repo.
P="$1"; shift
V="${VERIF_ROOT:-/verif}"; R="${VERIF_REPO:-/repo}"
git -C $R diff --quiet || { echo "$R is dirty"; exit 2; }
git -C $R apply "$P" || { echo "patch does not apply"; exit 2; }
for id in "$@"; do
  $V/bin/check $id --tier quick > $V/.work/seed_$id.log 2>&1
  rc=$?
  echo "  check $id: exit=$rc $(grep -c '^VIOLATION' $V/.work/seed_$id.log) violation line(s); $(grep -m1 -A1 '^VIOLATION' $V/.work/seed_$id.log | tail -1 | cut -c1-220)"
  [ $rc = 2 ] && grep -m3 "^INCONCLUSIVE\|^UNSUPPORTED" $V/.work/seed_$id.log | cut -c1-300
done
git -C $R checkout -- .
