#!/usr/bin/env python3
"""Regenerates /verif/MANIFEST.json from the table below (kept in one place so it stays valid)."""
import json, subprocess

CLAIMED = {
 "C01": dict(
   text="Bounded model checking of the real Marshal/Unmarshal code: for each of 61 catalogue types (every codec kind in every position: scalars of every width, flat/intern/proto tags, pointers, packed/fixed/counted slices, pointer slices, nested and recursive structs, maps with string/int/struct keys and pointer/struct/slice values, time, null.*, named types, multi-byte tags, zero-sized fields, instantiated generic structs, the flat option on slices, top-level non-struct values) a value whose integers, floats (bit patterns), string bytes and time fields are unrestricted solver symbols and whose shapes (nil / empty / populated, lengths up to the bound) are enumerated is marshalled and unmarshalled by the symbolically executed library; round-trip equality up to the documented normalisations is one solver query per path (unsat = holds for every value of that shape). Default and proto-compatible configurations (both switches; each switch alone for types sensitive to both). Size-boundary harnesses with concrete shape and symbolic content cross the 1/2/3-byte length-prefix boundaries (bodies of 125..129 and 16381..16385 bytes, map entries of 126..128 and 16382..16384 bytes, slices of 7..33 elements).",
   note="Bounds: string/[]byte length <=1 (quick) / <=2 (thorough), slice length <=1/2, map entries <=1/2, struct nesting depth 2/3; all scalar values unrestricted. Thorough tier: per top-level field one variant with that field at the larger bounds; a variant needing more than 200000 paths or 4 minutes is not claimed at those bounds (listed under coverage.bounds_reduced) and the harness is then explored completely at the quick bounds. Types outside the catalogue (incl. types built with reflect.StructOf) and larger sizes are outside the claim. reflect is modelled from go/types; codec construction runs inside the engine on that model.",
   design="DESIGN.md §4 C01"),
 "C02": dict(
   text="Differential bounded model checking against an independent definition of the wire format: a reference encoder generated from the catalogue's static types implements README.md / wire.go / the golden files (tags, zig-zag vs plain varints, fixed widths, length prefixes, packed vs counted slices, map entries as key=1/value=2, omission rules, declaration order) without calling plenc; for every catalogue type and every value within the bounds the solver decides impl_bytes == ref_bytes (for some rotation of map entry order). Decode side: the reference encoding with the top-level fields in every order (all permutations up to 3 fields) must unmarshal to the value.",
   note="Same bounds and catalogue as C01. The reference encoder is trusted as the statement of the format; it is cross-checked natively against plenc on every replayed witness.",
   design="DESIGN.md §4 C02"),
 "C03": dict(
   text="Bounded model checking of decode-into-evolved-type: 13 old types carry one field of every wire shape (varint, flat, fixed32/64, string, nested struct, packed, fixed and counted slices, map, time, pointer) between two surviving fields; their encodings (symbolic values) are decoded by the real code into the evolved type (field removed, others renamed and reordered, one added), both pre-populated with symbolic prior contents and fresh; the solver decides that every surviving field gets exactly its value (or keeps the prior one when absent) and the added field is untouched - i.e. the unknown field was skipped exactly. Also nested, slice-element and map-value positions and the proto-compatible writer.",
   note="Bounds as C01. Pairs outside the 17 listed are outside the claim; changing a field's type is documented as unsupported.",
   design="DESIGN.md §4 C03"),
 "C04": dict(
   text="Bounded model checking of decoder totality: for 41 target types (every Read implementation) and their descriptors, Unmarshal / Descriptor.Read run symbolically on a byte string whose length (0..4 quick, 0..5 for the top-level slice/map/scalar targets; 0..6 thorough) is enumerated and whose every byte is a free 8-bit symbol, with and without spare capacity behind the slice (spare bytes poisoned: any read is a violation). Every implicit run-time check (index, slice bounds incl. negative after int(uint64), nil, type confusion of unsafe casts), every allocation request (must stay within 4096*(len+1) bytes) and every loop (unwinding bound len+16) is a solver query on every path. Also into re-used targets (slices with spare capacity, non-nil maps and pointers).",
   note="Outside the bound: inputs longer than stated, targets not listed (JSON-any codecs are under C16). Wall-clock promptness is represented by the unwinding bound. One committed known finding: Descriptor() of recursive types overflows the stack.",
   design="DESIGN.md §4 C04"),
 "C05": dict(
   text="Bounded model checking of the codec laws on the codecs plenc builds for every catalogue type (both configurations): Size(ptr,nil)==len(Append(nil,ptr,nil)); with a tag whose index is a solver symbol, Size(ptr,tag)==len(Append(nil,ptr,tag)); framing = tag, varint(len(body)) for WTLength, body; Read(body) succeeds and consumes exactly len(body). Values symbolic as in C01. Size-boundary harnesses (length prefixes of 1/2/3 bytes, packed bodies around 8192 and 16384 bytes, two-byte tags) and a size / mutate-in-place / size-again history on a 9-entry map.",
   note="Bounds as C01; tag index in [1,2^11) quick / [1,2^28) thorough. Exported BigQuery timestamp and JSON-any codecs are checked in dedicated harnesses.",
   design="DESIGN.md §4 C05"),
 "C06": dict(
   text="Bounded model checking of Marshal's append contract on 15 representative types: symbolic prefix bytes (0 or 2), spare capacity 0/1/64, value symbolic incl. the all-zero value: prefix bytes unchanged, appended bytes == Marshal(nil,v), by-value == by-pointer (the engine reproduces gc's direct-interface representation), re-marshal into the reused buffer identical; marshal with a nil buffer, mutate the same instance in place (nested struct, map value), marshal again into the re-used buffer == fresh encoding of the new value.",
   note="Bounds as C01; histories of 3 calls.",
   design="DESIGN.md §4 C06"),
 "C09": dict(
   text="Bounded model checking of presence: round trips of pointer fields to every kind, pointer-valued map entries (string and int keys, scalar and struct pointees), nested pointers, null.Int/Bool/Float/String/Time (plain, nested, behind pointers) with symbolic values incl. zero/empty pointees; plus Descriptor.ExplicitPresence compared with the static type for every field (concrete structural check).",
   note="Bounds as C01.",
   design="DESIGN.md §4 C09"),
 "C10": dict(
   text="Bounded model checking of merge rules and history independence: decode of symbolic data into targets pre-populated with symbolic contents (structs, nested structs, pointers nil/non-nil, slices shorter/longer than the data with symbolic garbage in spare capacity, maps with a prior entry, proto-form append) against the documented merge result; and two consecutive decodes on one Plenc instance (pool scratch and intern tables carried over) must give the second result a fresh instance gives and leave the first result intact.",
   note="sync.Pool.Get is modelled as returning the most recently Put item (the runtime's single-goroutine behaviour), which is the state-leaking case. Histories of 2 calls; first call's integers restricted to one-byte varints in the quick tier.",
   design="DESIGN.md §4 C10"),
 "C11": dict(
   text="Bounded model checking of non-aliasing: after Unmarshal the input buffer is overwritten with fresh solver symbols and the decoded value must still equal the original (strings, byte slices, map keys and values, interned strings, null strings); the input bytes must be unchanged by Unmarshal; Marshal must leave the value unchanged. The engine's string/[]byte conversions allocate exactly where Go copies, so a zero-copy cast shows up as dependence on the overwritten buffer.",
   note="Bounds as C01; 11 representative types.",
   design="DESIGN.md §4 C11"),
 "C12": dict(
   text="Bounded model checking of the proto-compatible configurations: for every catalogue struct whose encoding the options change, under {Arrays+Time}, {Arrays}, {Time}: the output parses with an independent protobuf wire reader (only wire types 0,1,2,5, exact lengths, recursively into message-typed fields, Timestamp fields plain varints), equals the reference encoding for that configuration (so each switch changes only its own fields), round-trips in the same configuration, and a default-mode instance decodes the repeated-field form to the same value.",
   note="Bounds as C01.",
   design="DESIGN.md §4 C12"),
 "C08": dict(
   text="Bounded model checking of codec construction: (a) struct types built at run time (vrt.StructOf) whose plenc tag texts are arbitrary byte strings (every byte a free symbol, length <=3 quick / <=4 thorough; 1 and 2 fields, 4 field kinds, tag present or missing) go through the real CodecForTypeRegistry/BuildStructCodec (strings.IndexByte, strconv.Atoi executed from their SSA): no path may panic, and acceptance must coincide with an independent statement of the tag grammar (missing tag, unparsable or negative index, duplicate index, option without codec => error; otherwise a codec). (b) 19 definitions with unsupported kinds/nestings in field, element, map-key/value and pointer-target positions must be rejected with an error (also for pointer-to and slice-of them), a failed recursive build must not leave usable half-built codecs behind, unusual accepted nestings must round-trip, and unexported / '-' fields are neither encoded nor written.",
   note="Stated bounds: parsed index <= 15 (plenc sizes its index table by the largest index and table sizes are concrete per path); field names are concrete; reflect.StructTag.Get's own parsing of the raw tag literal is stubbed (returns the symbolic text for the key). Natively the same definitions are built with reflect.StructOf.",
   design="DESIGN.md §4 C08"),
 "C13": dict(
   text="Bounded model checking at the Outputter seam: for 31 catalogue types and all values within the C01 bounds, Descriptor.Read over Marshal(v) drives a recording Outputter; the event list must be well nested (i.e. renders as valid JSON by C15) and equal the list the statement prescribes for v (objects keyed by json/field name with omitted fields absent, arrays element for element incl. empty ones, string-keyed maps as objects, other maps as key/value lists, pointers as targets, times as instants, numbers by kind, exact payloads). The descriptor serialised and restored through plenc must drive the identical walk.",
   note="C13 = (this check) composed with C15 at the Outputter interface; the composition is by construction of the interface, not machine-checked. Outside: descriptors restored through encoding/json; recursive types (known finding under C04: Descriptor() overflows the stack); flat-tagged integer fields (the descriptor carries no width, negative values of narrow flat ints render unsigned - excluded, stated); finite floats only matter at the JSON level (C15).",
   design="DESIGN.md §4 C13"),
 "C14": dict(
   text="(a) Bounded model checking over symbolic definitions: struct types built at run time with json tag texts of arbitrary bytes (<=3) and symbolic index digits: the descriptor has one element per encoded field in declaration order with Index == parsed index, Name == json name before the first comma if non-empty else the Go name, Type matching the kind (8 kinds incl. flat), no ExplicitPresence for plain fields (also asserted inside the C08 tag harnesses). (b) For every non-recursive catalogue type the full descriptor tree equals a reference tree generated from the static type (kind -> field type, pointer/null -> explicit presence, map -> Slice/LogicalTypeMap of Struct/LogicalTypeMapEntry{key=1,value=2} with the map_<K>_<V> type name, time -> Time/Timestamp, flat -> FlatInt, json names) - executed by the engine concretely and compared structurally.",
   note="Part (b) has no symbolic input: it is a concrete structural comparison run inside the engine and reported as such. Recursive types excluded (known finding).",
   design="DESIGN.md §4 C14"),
 "C15": dict(
   text="Bounded model checking of JSONOutput against an independent RFC 8259 recogniser and string decoder executed symbolically on the produced bytes: arbitrary call trees (depth <=1 quick / <=2 thorough, <=2 children, all container/scalar adjacencies incl. empty containers) with string and member-name payloads of arbitrary bytes (all 256 values in every position, length <=2/3): the output must be exactly one JSON value, its token tree must equal the call tree, every string and name must decode to the input bytes, integers must match their decimal text and floats must parse back to the same bits; after Reset the output equals a new outputter's.",
   note="Numbers and times take boundary values (MinInt64..MaxUint64, +-0, 1e21, 5e-324, MaxFloat64, float32 analogues); strconv/time formatting is executed from its SSA on those concrete values. Non-finite floats and Raw() are outside the claim.",
   design="DESIGN.md §4 C15"),
 "C16": dict(
   text="Bounded model checking of the JSON-any codecs: value trees over the 8 dynamic kinds (nil, bool, int, float64 bits, string, json.Number, []any, map[string]any; containers nested 2 deep quick / 3 deep thorough below the top-level one, each holding nil / empty / one element; intermediate fallback of the thorough tier: two elements in the top-level container; empty keys/strings/containers included) with symbolic scalar payloads round-trip at top level, as struct fields between integers and as unknown fields being skipped; the codec laws (C05) hold for JSONMapCodec/JSONArrayCodec; the Descriptor walk yields the value's events (recording Outputter); decoding arbitrary bytes into JSON-any targets is checked under C04.",
   note="Integers restricted to one-byte varints in the quick tier (full width in the thorough tier's main bounds). Descriptor-walk harnesses use at most one member per object (member order is the encoder's map iteration order).",
   design="DESIGN.md §4 C16"),
 "C17": dict(
   text="Bounded model checking of registration scoping with a marker codec defined in the harness: for symbolic values, an instance with the marker registered for a type (and under a tag name for another) must use it as value, struct field, pointer target, slice element, map key and map value (bytes compared with a reference containing the marker at exactly those positions), while a plain instance and the package-level default encode the same values with the kind codecs, reject the unknown tag option, are byte-identical to each other and stay unchanged when a third instance with other options/registrations is created between uses; sync.Map is modelled per object, so a shared registry makes the marker visible where it must not be. Registrations on the package default (also under a tag name, also for a basic kind) stay invisible to other instances; a constructed type (named int, []string) under two different tag options in one struct build gets the codec of each (type, option) pair, in both field orders and nested.",
   note="Sequential only (concurrent registration is C07, not claimed).",
   design="DESIGN.md §4 C17"),
 "C19": dict(
   text="Bounded model checking of interning transparency over sequential histories: 3 (quick) / 4 (thorough) decodes of symbolic strings (length <=2, arbitrary bytes, so equal / different / empty / prefix relations are all reachable through the solver) into a struct with two interned fields and its non-interned twin, all from one reused input buffer that is overwritten with fresh symbols after every decode: interned == plain == encoded, encodings identical with and without the option, and every string returned earlier still equals its value (the copy-on-write table code runs from SSA over the engine's map model); same for an interned null.String (fresh and re-used targets) and for strings of 7, 8 and 9 arbitrary bytes.",
   note="The 'from any number of goroutines' half is not claimed (see C07).",
   design="DESIGN.md §4 C19"),
 "C18": dict(
   text="Bounded model checking of the real plenccore functions: AppendVarUint/ReadVarUint/SizeVarUint/ZigZag/ZagZig/SizeVarInt/AppendTag/ReadTag/SizeTag are executed symbolically from /repo's SSA with unrestricted 64-bit symbols and compared with independent reference definitions; every assertion is an unsat verdict over all 2^64 values (no sampling). ReadVarUint is compared with a reference decoder on every byte string up to 4 (quick) / 11 (thorough) bytes, Skip on every byte string up to 5 / 8 bytes for every wire type 0..7, including the no-panic, no-over-run and loop-unwinding obligations.",
   note="Trusted: go/ssa lowering, symgo's Go semantics (cross-checked each run by native replay of solver models), z3 unsat answers. binary.Uvarint and math/bits.Len64 are part of the encoding (Uvarint from its SSA, Len64 as its exact definition). Outside the bound: byte strings longer than stated for ReadVarUint/Skip; tag indexes above 2^28 (quick) / 2^60 (thorough).",
   design="DESIGN.md §4 C18"),
}

NA = {
 "C07": "quantifies over goroutine schedules and data races; a sequential path-forking symbolic executor cannot decide it without degenerating into interleaving enumeration over stubbed sync/reflect code (DESIGN.md §5)",
 "C20": "quantifies over Go source files through go/parser, go/format and compilation; nothing in cmd/plenctag is solver-decidable arithmetic (DESIGN.md §5)",
}

def main():
    ids=[json.loads(l)['id'] for l in open('/verif/properties.jsonl')]
    commits=[]
    checks=[]
    for pid in ids:
        if pid not in CLAIMED: continue
        c=CLAIMED[pid]
        checks.append({
          "property_id":pid,
          "quick_cmd":f"/verif/bin/check {pid} --tier quick",
          "thorough_cmd":f"/verif/bin/check {pid} --tier thorough",
          "evidence_file":f"/verif/evidence/{pid}.json",
          "replay_cmd_template":f"/verif/bin/check {pid} --replay {{path}}",
          "engine":"symgo",
          "level_claimed":{"category":"model_checking","text":c["text"],"design_ref":c["design"]},
          "level_note":c["note"],
          "technique":"bounded symbolic execution of the real Go code (go/ssa -> QF_BV) with z3 deciding every path-feasibility and assertion query; native replay of every model",
        })
    na=[]
    for pid in ids:
        if pid in CLAIMED: continue
        na.append({"property_id":pid,"reason":NA.get(pid,"check not built yet (build in progress; see DESIGN.md §4 for the plan)")})
    m={"version":1,
     "setup_cmd":"/verif/bin/setup",
     "hooks":{"guard":"verif","enable":"no hooks: harnesses live in /verif/harness and use only exported API of /repo (built from its working tree via a replace directive); /repo is never built with extra tags","baseline_off_cmd":"cd /repo && go test -vet=off -count=1 ./...","source_commits":[],"add_only":True},
     "engines":[{"name":"symgo","path":"/verif/symgo","serves_properties":sorted(CLAIMED),"kind_free_text":"path-exploring symbolic executor over go/ssa of /repo's current source (re-loaded on every run); integers/bytes/floats as bit-vector terms, heap as typed byte cells, reflect modelled from go/types; QF_BV queries to z3 (-in, incremental); native replay of every model against the real library"}],
     "checks":checks,
     "not_applicable":na,
     "notes":"Exit codes of every check: 0 = all assertions unsat within the stated bounds (or matched a committed known finding); 1 = natively reproduced violation (VIOLATION line); 2 = inconclusive (solver unknown, unsupported construct, encoder mismatch). See DESIGN.md."}
    json.dump(m,open('/verif/MANIFEST.json','w'),indent=1)
main()
