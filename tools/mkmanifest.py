#!/usr/bin/env python3
"""Regenerates /verif/MANIFEST.json from the table below (kept in one place so it stays valid)."""
import json, subprocess

CLAIMED = {
 "C18": dict(
   text="Bounded model checking of the real plenccore functions: AppendVarUint/ReadVarUint/SizeVarUint/ZigZag/ZagZig/SizeVarInt/AppendTag/ReadTag/SizeTag are executed symbolically from /repo's SSA with unrestricted 64-bit symbols and compared with independent reference definitions; every assertion is an unsat verdict over all 2^64 values (no sampling). ReadVarUint is compared with a reference decoder on every byte string up to 4 (quick) / 11 (thorough) bytes, Skip on every byte string up to 5 / 8 bytes for every wire type 0..7, including the no-panic, no-over-run and loop-unwinding obligations.",
   note="Trusted: go/ssa lowering, symgo's Go semantics (cross-checked each run by native replay of solver models), z3 unsat answers. binary.Uvarint and math/bits.Len64 are part of the encoding (Uvarint from its SSA, Len64 as its exact definition). Outside the bound: byte strings longer than stated for ReadVarUint/Skip; tag indexes above 2^28 (quick) / 2^60 (thorough).",
   design="DESIGN.md §4 C18"),
}

NA = {
 "C07": "quantifies over goroutine schedules and data races; a sequential path-forking symbolic executor cannot decide it without degenerating into interleaving enumeration over stubbed sync/reflect code (DESIGN.md §5)",
 "C20": "quantifies over Go source files through go/parser, go/format and compilation; nothing in cmd/plenctag is solver-decidable arithmetic (DESIGN.md §5)",
}

def main():
    ids=[json.loads(l)['id'] for l in open('/verif/properties.jsonl')]
    commits=[]
    checks=[]
    for pid in ids:
        if pid not in CLAIMED: continue
        c=CLAIMED[pid]
        checks.append({
          "property_id":pid,
          "quick_cmd":f"/verif/bin/check {pid} --tier quick",
          "thorough_cmd":f"/verif/bin/check {pid} --tier thorough",
          "evidence_file":f"/verif/evidence/{pid}.json",
          "replay_cmd_template":f"/verif/bin/check {pid} --replay {{path}}",
          "engine":"symgo",
          "level_claimed":{"category":"model_checking","text":c["text"],"design_ref":c["design"]},
          "level_note":c["note"],
          "technique":"bounded symbolic execution of the real Go code (go/ssa -> QF_BV) with z3 deciding every path-feasibility and assertion query; native replay of every model",
        })
    na=[]
    for pid in ids:
        if pid in CLAIMED: continue
        na.append({"property_id":pid,"reason":NA.get(pid,"check not built yet (build in progress; see DESIGN.md §4 for the plan)")})
    m={"version":1,
     "setup_cmd":"/verif/bin/setup",
     "hooks":{"guard":"verif","enable":"no hooks: harnesses live in /verif/harness and use only exported API of /repo (built from its working tree via a replace directive); /repo is never built with extra tags","baseline_off_cmd":"cd /repo && go test -vet=off -count=1 ./...","source_commits":[],"add_only":True},
     "engines":[{"name":"symgo","path":"/verif/symgo","serves_properties":sorted(CLAIMED),"kind_free_text":"path-exploring symbolic executor over go/ssa of /repo's current source (re-loaded on every run); integers/bytes/floats as bit-vector terms, heap as typed byte cells, reflect modelled from go/types; QF_BV queries to z3 (-in, incremental); native replay of every model against the real library"}],
     "checks":checks,
     "not_applicable":na,
     "notes":"Exit codes of every check: 0 = all assertions unsat within the stated bounds (or matched a committed known finding); 1 = natively reproduced violation (VIOLATION line); 2 = inconclusive (solver unknown, unsupported construct, encoder mismatch). See DESIGN.md."}
    json.dump(m,open('/verif/MANIFEST.json','w'),indent=1)
main()
