#!/bin/sh
# usage: import_r6.sh <Cxx> <N>  - confirms /tmp/r6out/<Cxx>/change<N> and stores it as seeded/<Cxx>-r6-<N>
P=$1; N=$2; S=/tmp/r6out/$P/change$N; D=/verif/seeded/$P-r6-$N
[ -f $S/patch.diff ] || { echo "$P-$N: no patch"; exit 1; }
res=$(/verif/tools/confirm_seed.sh $S 2>&1)
echo "$P-r6-$N: $(echo "$res" | tr '\n' ';')"
echo "$res" | grep -q "suite-with-change: PASS" && echo "$res" | grep -q "demo-with-change: FAIL (good)" && echo "$res" | grep -q "demo-without-change: PASS (good)" || { echo "$P-r6-$N NOT CONFIRMED"; exit 1; }
mkdir -p $D
cp $S/patch.diff $D/patch.diff; cp $S/demo_test.go $D/demo_test.go.txt; cp $S/demo_location.txt $D/demo_location.txt; cp $S/notes.md $D/notes.md
