#!/bin/sh
# Runs every stored seeded change (seeded/<id>/patch.diff) against the quick check of the
# property it was written against and writes one line per change to $OUT
# (default <root>/.work/seeds_regress.tsv): id, property, exit code, first violation.
# Works on /verif + /repo, or on snapshot copies: VERIF_ROOT=<copy of /verif> VERIF_REPO=<copy of /repo>
# (the copy's harness/go.mod is then pointed at that repository copy).
export GOFLAGS=-mod=mod GOPROXY=off GOSUMDB=off GOTOOLCHAIN=local
V="${VERIF_ROOT:-/verif}"; R="${VERIF_REPO:-/repo}"
export VERIF_ROOT="$V" VERIF_REPO="$R"
mkdir -p $V/.work
OUT="${OUT:-$V/.work/seeds_regress.tsv}"
if [ "$R" != /repo ]; then
  sed -i "s|^replace github.com/philpearl/plenc => .*|replace github.com/philpearl/plenc => $R|" $V/harness/go.mod
fi
git -C $R rev-parse --git-dir >/dev/null 2>&1 || (cd $R && git init -q && git add -A && git -c user.email=x@x -c user.name=x commit -qm snapshot)
$V/bin/setup || exit 2
: > "$OUT"
for d in $V/seeded/${1:-*}/; do
  [ -f $d/patch.diff ] || continue
  id=$(basename $d)
  prop=$(echo $id | cut -c1-3)
  git -C $R diff --quiet || { echo "$R is dirty"; exit 2; }
  git -C $R apply $d/patch.diff || { printf "%s\t%s\t%s\t%s\n" $id $prop 3 "patch does not apply" >> "$OUT"; continue; }
  $V/bin/check $prop --tier quick > $V/.work/seed_$id.log 2>&1
  rc=$?
  git -C $R checkout -- .
  first=$(grep -m1 -A1 '^VIOLATION' $V/.work/seed_$id.log | tail -1 | cut -c1-260 | tr '\t' ' ')
  [ $rc = 2 ] && first=$(grep -m1 "^INCONCLUSIVE\|^UNSUPPORTED\|ENCODER-MISMATCH" $V/.work/seed_$id.log | cut -c1-260 | tr '\t' ' ')
  printf "%s\t%s\t%s\t%s\n" $id $prop $rc "$first" >> "$OUT"
  echo "$id $prop exit=$rc"
done
