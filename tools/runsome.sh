#!/bin/sh
# usage: runsome.sh <tier> <limit seconds> <id>...   - runs the given checks in order, prints exit codes
TIER=$1; LIMIT=$2; shift 2
mkdir -p /verif/.work
for id in "$@"; do
  t0=$(date +%s)
  timeout $LIMIT /verif/bin/check $id --tier $TIER > /verif/.work/run_${TIER}_$id.log 2>&1
  rc=$?
  echo "$id exit=$rc wall=$(( $(date +%s) - t0 ))s $(tail -1 /verif/.work/run_${TIER}_$id.log | cut -c1-200)"
done
