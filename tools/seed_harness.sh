#!/bin/sh
# usage: seed_harness.sh <seed id> <harness regexp>  - applies the stored change to /repo, runs the matching harnesses in the engine only (no native replay), restores /repo
export GOFLAGS=-mod=mod GOPROXY=off GOSUMDB=off GOTOOLCHAIN=local
git -C /repo diff --quiet || { echo "/repo is dirty"; exit 2; }
git -C /repo apply /verif/seeded/$1/patch.diff || exit 2
timeout ${LIMIT:-600} /verif/bin/symgo run -h "$2" 2>&1 | grep -v "^WARNING\|^loaded\|model:\|INCONCLUSIVE" | cut -c1-260 | awk '!seen[$0]++' | head -${LINES:-8}
git -C /repo checkout -- .
