#!/bin/sh
# runs every seeded change under /tmp/seedout (or $1) against its property's check
ROOT=${1:-/tmp/seedout}
for d in $ROOT/*/[12]; do
  [ -f $d/patch.diff ] || continue
  id=$(basename $(dirname $d))
  echo "== $id/$(basename $d)"
  /verif/tools/run_seed.sh $d/patch.diff $id
done
