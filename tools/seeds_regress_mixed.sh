#!/bin/sh
# Like seeds_regress.sh, for the round-4/5 changes: the properties whose quick check takes minutes
# (C01-C05, C12) are run restricted to the harness named in tools/deciding.tsv (engine + native replay,
# through the same `symgo check`, no evidence written); every other property runs its full quick check.
# usage: seeds_regress_mixed.sh '<glob>'   (VERIF_ROOT / VERIF_REPO as in seeds_regress.sh)
export GOFLAGS=-mod=mod GOPROXY=off GOSUMDB=off GOTOOLCHAIN=local
V="${VERIF_ROOT:-/verif}"; R="${VERIF_REPO:-/repo}"
export VERIF_ROOT="$V" VERIF_REPO="$R"
mkdir -p $V/.work
OUT="${OUT:-$V/.work/seeds_regress.tsv}"
if [ "$R" != /repo ]; then
  sed -i "s|^replace github.com/philpearl/plenc => .*|replace github.com/philpearl/plenc => $R|" $V/harness/go.mod
fi
$V/bin/setup || exit 2
: > "$OUT"
for d in $V/seeded/${1:-*}/; do
  [ -f $d/patch.diff ] || continue
  id=$(basename $d)
  prop=$(echo $id | cut -c1-3)
  git -C $R diff --quiet || { echo "$R is dirty"; exit 2; }
  git -C $R apply $d/patch.diff || { printf "%s\t%s\t%s\t%s\n" $id $prop 3 "patch does not apply" >> "$OUT"; continue; }
  re=$(grep "^$id	" $V/tools/deciding.tsv | cut -f2)
  if [ -n "$re" ]; then
    $V/bin/symgo check -prop $prop -tier quick -only "$re" -no-evidence > $V/.work/seed_$id.log 2>&1
    rc=$?
    how="only $re"
  else
    $V/bin/check $prop --tier quick > $V/.work/seed_$id.log 2>&1
    rc=$?
    how="full"
  fi
  git -C $R checkout -- .
  first=$(grep -m1 -A1 '^VIOLATION' $V/.work/seed_$id.log | tail -1 | cut -c1-260 | tr '\t' ' ')
  [ $rc = 2 ] && first=$(grep -m1 "^INCONCLUSIVE\|^UNSUPPORTED\|ENCODER-MISMATCH" $V/.work/seed_$id.log | cut -c1-260 | tr '\t' ' ')
  printf "%s\t%s\t%s\t%s\n" $id $prop $rc "$first" >> "$OUT"
  echo "$id $prop exit=$rc ($how)"
done
