#!/usr/bin/env python3
"""Folds the result of tools/seeds_regress.sh (a TSV: id, property, exit, first line) into
seeded/<id>/meta.json and regenerates the table in seeded/README.md between the markers.
usage: seeds_report.py <tsv> [<verif commit the regression ran at>]"""
import json, os, sys, re
root = os.path.dirname(os.path.dirname(os.path.abspath(__file__)))
tsv = sys.argv[1]
commit = sys.argv[2] if len(sys.argv) > 2 else ""
res = {}
for line in open(tsv):
    f = line.rstrip("\n").split("\t")
    if len(f) >= 3:
        res[f[0]] = (f[1], int(f[2]), f[3].strip() if len(f) > 3 else "")
rows = []
sd = os.path.join(root, "seeded")
for d in sorted(os.listdir(sd)):
    mp = os.path.join(sd, d, "meta.json")
    if not os.path.isfile(os.path.join(sd, d, "patch.diff")):
        continue
    meta = json.load(open(mp)) if os.path.exists(mp) else {"id": d, "breaks_property": d[:3]}
    if "summary" not in meta:
        notes = open(os.path.join(sd, d, "notes.md")).read().splitlines()
        meta["summary"] = next((l.lstrip("# ").strip() for l in notes if l.strip()), d)
    m = re.match(r"C\d\d-r(\d)-", d)
    meta.setdefault("round", int(m.group(1)) if m else 1)
    meta.setdefault("needs_to_manifest", "see notes.md (written by the independent sub-agent that produced the change)")
    meta.setdefault("confirmed", "tools/confirm_seed.sh: existing suite passes with the change; demo test fails with it and passes without it (scratch worktree of /repo)")
    if d in res:
        prop, rc, first = res[d]
        meta["ran"] = "tools/seeds_regress.sh (git apply; bin/check %s --tier quick; git checkout -- .)%s" % (prop, " at /verif commit " + commit if commit else "")
        meta["check_exit"] = rc
        meta["caught"] = rc == 1
        if rc == 1:
            meta["first_violation"] = first
    json.dump(meta, open(mp, "w"), indent=1)
    note = meta.get("first_violation", "") if meta.get("caught") else meta.get("why_missed", "exit %s" % meta.get("check_exit"))
    if meta.get("history"):
        note += " — " + meta["history"]
    rows.append("| %s | %s | %s | %s |" % (d, meta["summary"].replace("|", "/"), "yes" if meta.get("caught") else "NO", note.replace("|", "/")[:400]))
caught = sum(1 for r in rows if "| yes |" in r)
table = ["<!-- table:begin -->", "Caught: **%d of %d**. 'Caught' means `symgo check` for the property the change was written against exits 1 with a natively reproduced VIOLATION line. In the last regression (see each meta.json, field `ran`) the full quick check was run for the round 4-6 changes against C06, C08-C11, C13-C16; for the others (the checks that take minutes: C01-C05, C12; rounds 1-3, whose full-check regression was done at an earlier commit; and a few re-runs after a harness was added) the same command was restricted with `-only` to the harness that decides the change, which the full quick check contains." % (caught, len(rows)), "",
         "| seed | change | caught | first violation / reason |", "|---|---|---|---|"] + rows + ["<!-- table:end -->"]
rp = os.path.join(sd, "README.md")
s = open(rp).read()
if "<!-- table:begin -->" in s:
    s = re.sub(r"<!-- table:begin -->.*<!-- table:end -->", lambda _: "\n".join(table), s, flags=re.S)
else:
    # first use: replace the old hand-made table
    i = s.index("Caught by the property's quick check")
    j = s.index("## What the misses taught")
    s = s[:i] + "\n".join(table) + "\n\n" + s[j:]
open(rp, "w").write(s)
print("caught %d of %d" % (caught, len(rows)))
