package main

import (
	"math"
	"math/rand"
	"testing"
)

func TestFloatConv(t *testing.T) {
	m := &Machine{st: NewStore()}
	v32 := m.st.Var("a", 32)
	v64 := m.st.Var("b", 64)
	up := m.f32to64(v32)
	down := m.f64to32(v64)
	r := rand.New(rand.NewSource(1))
	check32 := func(x uint32) {
		got := EvalTerm(up, Model{"a": uint64(x)}, map[*Term]uint64{})
		want := math.Float64bits(float64(math.Float32frombits(x)))
		if got != want {
			t.Fatalf("f32to64(%#x) = %#x want %#x", x, got, want)
		}
	}
	check64 := func(x uint64) {
		got := EvalTerm(down, Model{"b": x}, map[*Term]uint64{})
		want := uint64(math.Float32bits(float32(math.Float64frombits(x))))
		if got != want {
			t.Fatalf("f64to32(%#x) = %#x want %#x", x, got, want)
		}
	}
	edges32 := []uint32{0, 1, 2, 0x7fffff, 0x800000, 0x7f7fffff, 0x7f800000, 0x7f800001, 0x7fc00000, 0x7fffffff, 0x400000, 0x3f800000}
	for _, x := range edges32 {
		check32(x)
		check32(x | 1<<31)
	}
	for i := 0; i < 200000; i++ {
		check32(r.Uint32())
		check32(r.Uint32() & 0x807fffff) // subnormals
	}
	for _, x := range edges32 {
		f := math.Float64bits(float64(math.Float32frombits(x)))
		for d := -3; d <= 3; d++ {
			check64(f + uint64(d))
			check64((f + uint64(d)) | 1<<63)
			check64(f + uint64(d) + 1<<28)
			check64(f + uint64(d) + 1<<29)
			check64(f + uint64(d) + 3<<28)
		}
	}
	for i := 0; i < 400000; i++ {
		x := r.Uint64()
		check64(x)
		// exponents around the float32 range
		e := uint64(860 + r.Intn(300))
		y := x&^(0x7ff<<52) | e<<52
		check64(y)
		check64(y &^ (1<<29 - 1))          // exact
		check64(y&^(1<<29-1) | 1<<28)      // ties
		check64(y&^(1<<(29+uint(r.Intn(24)))-1)) // subnormal ties
		check64(x & (1<<52 - 1) | x&(1<<63)) // f64 subnormals
		check64(x | 0x7ff<<52)             // nans
	}
}
