package main

import (
	"go/token"
	"go/types"
	"math"

	"golang.org/x/tools/go/ssa"
)

func (m *Machine) binop(op token.Token, XT types.Type, x, y Value, YT types.Type) Value {
	switch a := x.(type) {
	case *Term:
		b, ok := y.(*Term)
		if !ok {
			if bp, isP := y.(Ptr); isP {
				return m.ptrArith(op, bp, a, true, XT, YT)
			}
			m.unsupported("binop %s on %T,%T", op, x, y)
		}
		return m.termBinop(op, XT, a, b, YT)
	case Ptr:
		switch b := y.(type) {
		case Ptr:
			switch op {
			case token.EQL:
				return m.st.Bool(ptrEq(a, b))
			case token.NEQ:
				return m.st.Bool(!ptrEq(a, b))
			case token.SUB:
				if a.ID == b.ID && a.Sym == nil && b.Sym == nil {
					return m.st.Const(64, uint64(a.Off-b.Off))
				}
			}
			if _, isInt := XT.Underlying().(*types.Basic); isInt && XT.Underlying().(*types.Basic).Kind() != types.UnsafePointer {
				return m.termBinop(op, XT, m.addrOf(a), m.addrOf(b), YT)
			}
		case *Term:
			return m.ptrArith(op, a, b, false, XT, YT)
		case nil:
			return m.binop(op, XT, a, Ptr{}, YT)
		case TypeTok, *Closure:
			switch op {
			case token.EQL:
				return m.st.False
			case token.NEQ:
				return m.st.True
			}
		}
		m.unsupported("pointer binop %s with %T", op, y)
	case nil:
		return m.binop(op, XT, Ptr{}, y, YT)
	case StringVal:
		b := y.(StringVal)
		switch op {
		case token.EQL:
			return m.stringEq(a, b)
		case token.NEQ:
			return m.st.BNot(m.stringEq(a, b))
		case token.ADD:
			if a.Len == 0 {
				return b
			}
			if b.Len == 0 {
				return a
			}
			bs := append(append([]*Term{}, m.bytesOf(a.P, a.Len)...), m.bytesOf(b.P, b.Len)...)
			return StringVal{P: m.newBytes(bs, "string-concat"), Len: int64(len(bs))}
		case token.LSS, token.LEQ, token.GTR, token.GEQ:
			sa, ok1 := m.goString(a)
			sb, ok2 := m.goString(b)
			if ok1 && ok2 {
				switch op {
				case token.LSS:
					return m.st.Bool(sa < sb)
				case token.LEQ:
					return m.st.Bool(sa <= sb)
				case token.GTR:
					return m.st.Bool(sa > sb)
				default:
					return m.st.Bool(sa >= sb)
				}
			}
			return m.stringLess(op, a, b)
		}
	case SliceVal:
		// only comparison with nil is legal
		b, _ := y.(SliceVal)
		isNil := (a.P.ID == 0 && a.Len == 0 && a.Cap == 0) || (b.P.ID != 0)
		if b.P.ID != 0 && a.P.ID != 0 {
			m.unsupported("slice == slice")
		}
		if a.P.ID == 0 && b.P.ID != 0 {
			isNil = false
		}
		switch op {
		case token.EQL:
			return m.st.Bool(isNil)
		case token.NEQ:
			return m.st.Bool(!isNil)
		}
	case IfaceVal, StructVal, ArrayVal, TypeTok, *Closure:
		switch op {
		case token.EQL:
			return m.eqValues(XT, x, m.coerceIfaceOperand(XT, YT, y))
		case token.NEQ:
			return m.st.BNot(m.eqValues(XT, x, m.coerceIfaceOperand(XT, YT, y)))
		}
	}
	m.unsupported("binop %s on %T (%s)", op, x, XT)
	return nil
}

func (m *Machine) coerceIfaceOperand(XT, YT types.Type, y Value) Value { return y }

// stringLess builds a lexicographic comparison term.
func (m *Machine) stringLess(op token.Token, a, b StringVal) *Term {
	x := m.bytesOf(a.P, a.Len)
	y := m.bytesOf(b.P, b.Len)
	// lt, eq computed from the end
	n := len(x)
	if len(y) < n {
		n = len(y)
	}
	lt := m.st.Bool(len(x) < len(y))
	eq := m.st.Bool(len(x) == len(y))
	for i := n - 1; i >= 0; i-- {
		bl := m.st.Ult(x[i], y[i])
		be := m.st.Eq(x[i], y[i])
		lt = m.st.BOr(bl, m.st.BAnd(be, lt))
		eq = m.st.BAnd(be, eq)
	}
	switch op {
	case token.LSS:
		return lt
	case token.LEQ:
		return m.st.BOr(lt, eq)
	case token.GTR:
		return m.st.BNot(m.st.BOr(lt, eq))
	default:
		return m.st.BNot(lt)
	}
}

func ptrEq(a, b Ptr) bool {
	return a.ID == b.ID && a.Off == b.Off && a.Sym == b.Sym
}

// Address model of last resort: when code computes with the *number* behind a
// pointer (masks, shifts, packing into a word) the pointer is given the
// address addrBase + id<<20 + offset. One arbitrary layout, 1 MiB apart:
// anything that depends on the relative placement of two objects is explored
// for this layout only (stated in DESIGN.md §1.4).
const addrBase = 0xc000000000

func (m *Machine) addrOf(p Ptr) *Term {
	if p.Sym != nil {
		m.unsupported("address of a pointer with a symbolic offset")
	}
	if p.ID == 0 {
		return m.st.Const(64, uint64(p.Off))
	}
	return m.st.Const(64, addrBase+uint64(p.ID)<<20+uint64(p.Off))
}

func ptrFromAddr(k uint64) Ptr {
	if k < addrBase {
		return Ptr{Off: int64(k)}
	}
	k -= addrBase
	return Ptr{ID: int32(k >> 20), Off: int64(k & (1<<20 - 1))}
}

func (m *Machine) ptrArith(op token.Token, p Ptr, t *Term, swapped bool, XT, YT types.Type) Value {
	if !t.IsConst() && (op == token.ADD || op == token.SUB) {
		t = m.st.Const(64, uint64(m.constInt(t, "pointer offset")))
	}
	switch op {
	case token.ADD:
		if t.IsConst() && (t.SVal() < 1<<32 && t.SVal() > -(1<<32)) {
			if p.ID == 0 && p.Off == 0 {
				return t
			}
			p.Off += t.SVal()
			return p
		}
	case token.SUB:
		if t.IsConst() && !swapped && (t.SVal() < 1<<32 && t.SVal() > -(1<<32)) {
			p.Off -= t.SVal()
			return p
		}
	case token.EQL, token.NEQ:
		// uintptr(ptr) == 0 etc.
		if t.IsConst() && t.K < addrBase {
			eq := p.ID == 0 && p.Off == t.SVal()
			if op == token.EQL {
				return m.st.Bool(eq)
			}
			return m.st.Bool(!eq)
		}
	}
	a := m.addrOf(p)
	if swapped {
		return m.termBinop(op, XT, t, a, YT)
	}
	return m.termBinop(op, XT, a, t, YT)
}

func (m *Machine) floatBinop(op token.Token, a, b *Term) Value {
	w := a.W
	signless := mask(w) >> 1
	isZeroConst := func(t *Term) bool { return t.IsConst() && t.K&signless == 0 }
	if a.IsConst() && b.IsConst() {
		var fa, fb float64
		if w == 32 {
			fa, fb = float64(math.Float32frombits(uint32(a.K))), float64(math.Float32frombits(uint32(b.K)))
		} else {
			fa, fb = math.Float64frombits(a.K), math.Float64frombits(b.K)
		}
		mk := func(f float64) *Term {
			if w == 32 {
				return m.st.Const(32, uint64(math.Float32bits(float32(f))))
			}
			return m.st.Const(64, math.Float64bits(f))
		}
		switch op {
		case token.ADD:
			return mk(fa + fb)
		case token.SUB:
			return mk(fa - fb)
		case token.MUL:
			return mk(fa * fb)
		case token.QUO:
			return mk(fa / fb)
		case token.EQL:
			return m.st.Bool(fa == fb)
		case token.NEQ:
			return m.st.Bool(fa != fb)
		case token.LSS:
			return m.st.Bool(fa < fb)
		case token.LEQ:
			return m.st.Bool(fa <= fb)
		case token.GTR:
			return m.st.Bool(fa > fb)
		case token.GEQ:
			return m.st.Bool(fa >= fb)
		}
	}
	// comparisons against ±0 with a symbolic operand
	if isZeroConst(b) || isZeroConst(a) {
		x := a
		if isZeroConst(a) {
			x = b
		}
		isz := m.st.Eq(m.st.BV(OpAnd, x, m.st.Const(w, signless)), m.st.Const(w, 0))
		switch op {
		case token.EQL:
			return isz
		case token.NEQ:
			return m.st.BNot(isz)
		}
	}
	if op == token.EQL || op == token.NEQ {
		// IEEE equality on bit patterns: equal bits and not NaN, or both zeros
		expMask := uint64(0x7ff) << 52
		fracMask := (uint64(1) << 52) - 1
		if w == 32 {
			expMask = uint64(0xff) << 23
			fracMask = (uint64(1) << 23) - 1
		}
		isNaN := func(t *Term) *Term {
			return m.st.BAnd(m.st.Eq(m.st.BV(OpAnd, t, m.st.Const(w, expMask)), m.st.Const(w, expMask)),
				m.st.Ne(m.st.BV(OpAnd, t, m.st.Const(w, fracMask)), m.st.Const(w, 0)))
		}
		isZ := func(t *Term) *Term {
			return m.st.Eq(m.st.BV(OpAnd, t, m.st.Const(w, signless)), m.st.Const(w, 0))
		}
		eq := m.st.BOr(m.st.BAnd(m.st.Eq(a, b), m.st.BNot(isNaN(a))), m.st.BAnd(isZ(a), isZ(b)))
		if op == token.EQL {
			return eq
		}
		return m.st.BNot(eq)
	}
	switch op {
	case token.LSS, token.LEQ, token.GTR, token.GEQ:
		// IEEE ordered comparison on bit patterns (exact): false when either is
		// NaN; zeros of either sign are equal; otherwise sign-magnitude order
		x, y := a, b
		if op == token.GTR || op == token.GEQ {
			x, y = b, a
		}
		expMask := uint64(0x7ff) << 52
		fracMask := (uint64(1) << 52) - 1
		if w == 32 {
			expMask = uint64(0xff) << 23
			fracMask = (uint64(1) << 23) - 1
		}
		st := m.st
		isNaN := func(t *Term) *Term {
			return st.BAnd(st.Eq(st.BV(OpAnd, t, st.Const(w, expMask)), st.Const(w, expMask)),
				st.Ne(st.BV(OpAnd, t, st.Const(w, fracMask)), st.Const(w, 0)))
		}
		mag := func(t *Term) *Term { return st.BV(OpAnd, t, st.Const(w, signless)) }
		neg := func(t *Term) *Term { return st.Ne(st.BV(OpAnd, t, st.Const(w, signless+1)), st.Const(w, 0)) }
		mx, my := mag(x), mag(y)
		bothZero := st.BAnd(st.Eq(mx, st.Const(w, 0)), st.Eq(my, st.Const(w, 0)))
		less := st.BOr(st.BAnd(neg(x), st.BNot(neg(y))),
			st.BOr(st.BAnd(st.BAnd(st.BNot(neg(x)), st.BNot(neg(y))), st.Ult(mx, my)),
				st.BAnd(st.BAnd(neg(x), neg(y)), st.Ult(my, mx))))
		less = st.BAnd(less, st.BNot(bothZero))
		ordered := st.BAnd(st.BNot(isNaN(x)), st.BNot(isNaN(y)))
		if op == token.LEQ || op == token.GEQ {
			eq := st.BOr(st.Eq(x, y), bothZero)
			return st.BAnd(ordered, st.BOr(less, eq))
		}
		return st.BAnd(ordered, less)
	}
	// arithmetic on symbolic floats is outside the encoding (no FP theory):
	// the operands are sampled at boundary values (under-approximation,
	// reported as inconclusive unless a violation is found)
	return m.floatBinop(op, m.sampleFloat(a, "float operand of "+op.String()), m.sampleFloat(b, "float operand of "+op.String()))
}

func (m *Machine) termBinop(op token.Token, XT types.Type, a, b *Term, YT types.Type) Value {
	s := m.st
	if a.W == 0 { // booleans
		switch op {
		case token.EQL:
			return s.Eq(a, b)
		case token.NEQ:
			return s.BNot(s.Eq(a, b))
		case token.LAND, token.AND:
			return s.BAnd(a, b)
		case token.LOR, token.OR:
			return s.BOr(a, b)
		}
		m.unsupported("bool binop %s", op)
	}
	if isFloat(XT) {
		return m.floatBinop(op, a, b)
	}
	signed := isSigned(XT)
	switch op {
	case token.SHL, token.SHR:
		// shift count may have a different width / signedness
		w := a.W
		var cnt *Term
		if b.IsConst() {
			k := b.K
			if isSigned(YT) && b.SVal() < 0 {
				m.raise(fault("negative-shift", "negative shift amount"))
			}
			if k >= uint64(w) {
				k = uint64(w)
			}
			cnt = s.Const(w, k)
		} else {
			if isSigned(YT) {
				neg := s.Slt(b, s.Const(b.W, 0))
				if m.branch(neg) {
					m.raise(fault("negative-shift", "negative shift amount"))
				}
			}
			// saturate to w
			if b.W > w {
				big := s.Ule(s.Const(b.W, uint64(w)), b)
				cnt = s.Ite(big, s.Const(w, uint64(w)), s.Extract(b, 0, w))
			} else {
				cnt = s.ZExt(b, w)
			}
		}
		if op == token.SHL {
			return s.BV(OpShl, a, cnt)
		}
		if signed {
			return s.BV(OpAShr, a, cnt)
		}
		return s.BV(OpLShr, a, cnt)
	}
	if a.W != b.W {
		m.unsupported("binop %s width mismatch %d/%d (%s)", op, a.W, b.W, XT)
	}
	switch op {
	case token.ADD:
		return s.BV(OpAdd, a, b)
	case token.SUB:
		return s.BV(OpSub, a, b)
	case token.MUL:
		return s.BV(OpMul, a, b)
	case token.QUO, token.REM:
		z := s.Eq(b, s.Const(b.W, 0))
		if m.branch(z) {
			m.raise(fault("divide-by-zero", "integer divide by zero"))
		}
		if signed {
			if op == token.QUO {
				return s.BV(OpSDiv, a, b)
			}
			return s.BV(OpSRem, a, b)
		}
		if op == token.QUO {
			return s.BV(OpUDiv, a, b)
		}
		return s.BV(OpURem, a, b)
	case token.AND:
		return s.BV(OpAnd, a, b)
	case token.OR:
		return s.BV(OpOr, a, b)
	case token.XOR:
		return s.BV(OpXor, a, b)
	case token.AND_NOT:
		return s.BV(OpAnd, a, s.Not(b))
	case token.EQL:
		return s.Eq(a, b)
	case token.NEQ:
		return s.BNot(s.Eq(a, b))
	case token.LSS:
		if signed {
			return s.Slt(a, b)
		}
		return s.Ult(a, b)
	case token.LEQ:
		if signed {
			return s.Sle(a, b)
		}
		return s.Ule(a, b)
	case token.GTR:
		if signed {
			return s.Slt(b, a)
		}
		return s.Ult(b, a)
	case token.GEQ:
		if signed {
			return s.Sle(b, a)
		}
		return s.Ule(b, a)
	}
	m.unsupported("binop %s", op)
	return nil
}

// eqValues: structural equality of two values of static type T as a term.
func (m *Machine) eqValues(T types.Type, x, y Value) *Term {
	switch a := x.(type) {
	case *Term:
		b, ok := y.(*Term)
		if !ok {
			return m.st.False
		}
		if isFloat(T) {
			return m.floatBinop(token.EQL, a, b).(*Term)
		}
		return m.st.Eq(a, b)
	case Ptr:
		b, ok := y.(Ptr)
		if !ok {
			return m.st.Bool(y == nil && a.IsNil())
		}
		return m.st.Bool(ptrEq(a, b))
	case nil:
		return m.st.Bool(isNilPV(y))
	case StringVal:
		return m.stringEq(a, y.(StringVal))
	case TypeTok:
		b, ok := y.(TypeTok)
		return m.st.Bool(ok && types.Identical(a.T, b.T))
	case *Closure:
		return m.st.Bool(x == y)
	case IfaceVal:
		b := y.(IfaceVal)
		if a.T == nil || b.T == nil {
			return m.st.Bool(a.T == nil && b.T == nil)
		}
		if !types.Identical(a.T, b.T) {
			return m.st.False
		}
		if !types.Comparable(a.T) {
			m.raise(fault("runtime-error", "comparing uncomparable type %s", a.T))
		}
		return m.eqValues(a.T, a.V, b.V)
	case StructVal:
		b := y.(StructVal)
		st := T.Underlying().(*types.Struct)
		r := m.st.True
		for i := range a {
			r = m.st.BAnd(r, m.eqValues(st.Field(i).Type(), a[i], b[i]))
		}
		return r
	case ArrayVal:
		b := y.(ArrayVal)
		et := T.Underlying().(*types.Array).Elem()
		r := m.st.True
		for i := range a {
			r = m.st.BAnd(r, m.eqValues(et, a[i], b[i]))
		}
		return r
	}
	m.unsupported("equality on %T", x)
	return nil
}

// ---------- conversions ----------

func (m *Machine) convert(from, to types.Type, x Value) Value {
	fu, tu := from.Underlying(), to.Underlying()
	switch t := tu.(type) {
	case *types.Basic:
		switch {
		case t.Kind() == types.UnsafePointer:
			// *T or uintptr -> unsafe.Pointer
			switch v := x.(type) {
			case *Term:
				if v.IsConst() {
					return ptrFromAddr(v.K)
				}
				m.unsupported("symbolic integer to unsafe.Pointer")
			}
			if x == nil {
				return Ptr{}
			}
			return x
		case t.Kind() == types.Uintptr:
			switch v := x.(type) {
			case Ptr:
				if v.IsNil() {
					return m.st.Const(64, 0)
				}
				return v
			case nil:
				return m.st.Const(64, 0)
			case TypeTok, *Closure:
				return v
			}
		case t.Info()&types.IsString != 0:
			switch v := x.(type) {
			case SliceVal: // []byte -> string (copy)
				if el, ok := fu.(*types.Slice); ok && sizeof(el.Elem()) == 1 {
					if v.Len == 0 {
						return StringVal{}
					}
					return StringVal{P: m.newBytes(m.bytesOf(v.P, v.Len), "string(bytes)"), Len: v.Len}
				}
				m.unsupported("[]rune to string")
			case StringVal:
				return v
			case *Term: // string(rune)
				if v.IsConst() {
					return m.constString(string(rune(v.SVal())))
				}
				m.unsupported("string(symbolic rune)")
			}
		}
		if t.Info()&(types.IsInteger|types.IsFloat) != 0 {
			v, ok := x.(*Term)
			if !ok {
				if p, isP := x.(Ptr); isP && t.Info()&types.IsInteger != 0 && sizeof(t) == 8 {
					if p.IsNil() {
						return m.st.Const(64, 0)
					}
					return p // uintptr -> int etc, keep provenance
				}
				if p, isP := x.(Ptr); isP && t.Info()&types.IsInteger != 0 {
					return m.convert(types.Typ[types.Uint64], to, m.addrOf(p))
				}
				m.unsupported("convert %T to %s", x, to)
			}
			fb, _ := fu.(*types.Basic)
			if fb == nil {
				m.unsupported("convert from %s to %s", from, to)
			}
			ff, tf := fb.Info()&types.IsFloat != 0, t.Info()&types.IsFloat != 0
			tw := uint8(sizeof(t) * 8)
			switch {
			case !ff && !tf:
				if fb.Info()&types.IsUnsigned != 0 {
					return m.st.ZExt(v, tw)
				}
				return m.st.SExt(v, tw)
			case ff && tf:
				if v.W == tw {
					return v
				}
				if v.IsConst() {
					if tw == 64 {
						return m.st.Const(64, math.Float64bits(float64(math.Float32frombits(uint32(v.K)))))
					}
					return m.st.Const(32, uint64(math.Float32bits(float32(math.Float64frombits(v.K)))))
				}
				if tw == 64 {
					return m.f32to64(v)
				}
				return m.f64to32(v)
			case !ff && tf:
				if v.IsConst() {
					var f float64
					if fb.Info()&types.IsUnsigned != 0 {
						f = float64(v.K)
					} else {
						f = float64(v.SVal())
					}
					if tw == 32 {
						return m.st.Const(32, uint64(math.Float32bits(float32(f))))
					}
					return m.st.Const(64, math.Float64bits(f))
				}
				return m.convert(from, to, m.sampleInt(v, fb.Info()&types.IsUnsigned != 0, "integer converted to float"))
			case ff && !tf:
				if v.IsConst() {
					var f float64
					if v.W == 32 {
						f = float64(math.Float32frombits(uint32(v.K)))
					} else {
						f = math.Float64frombits(v.K)
					}
					if t.Info()&types.IsUnsigned != 0 {
						return m.st.Const(tw, uint64(f))
					}
					return m.st.Const(tw, uint64(int64(f)))
				}
				return m.convert(from, to, m.sampleFloat(v, "float converted to integer"))
			}
		}
	case *types.Slice:
		// string -> []byte (copy)
		if s, ok := x.(StringVal); ok && sizeof(t.Elem()) == 1 {
			if s.Len == 0 {
				// non-nil empty slice
				o := m.w.Alloc(0, "[]byte(\"\")")
				return SliceVal{P: Ptr{ID: o.id}}
			}
			return SliceVal{P: m.newBytes(m.bytesOf(s.P, s.Len), "[]byte(string)"), Len: s.Len, Cap: s.Len}
		}
		if _, ok := x.(SliceVal); ok {
			return x
		}
	case *types.Pointer:
		// unsafe.Pointer -> *T
		if x == nil {
			return Ptr{}
		}
		return x
	case *types.Map, *types.Signature, *types.Chan:
		return x
	}
	m.unsupported("conversion %s -> %s (%T)", from, to, x)
	return nil
}

// ---------- builtins ----------

func (m *Machine) builtin(b *ssa.Builtin, args []Value) Value {
	return m.builtinTyped(b, nil, args)
}

func (m *Machine) builtinTyped(b *ssa.Builtin, c *ssa.CallCommon, args []Value) Value {
	switch b.Name() {
	case "len":
		switch v := args[0].(type) {
		case SliceVal:
			return m.st.Const(64, uint64(v.Len))
		case StringVal:
			return m.st.Const(64, uint64(v.Len))
		case Ptr:
			if v.IsNil() {
				return m.st.Const(64, 0)
			}
			if c != nil {
				if pt, ok := c.Args[0].Type().Underlying().(*types.Pointer); ok {
					return m.st.Const(64, uint64(pt.Elem().Underlying().(*types.Array).Len()))
				}
			}
			return m.st.Const(64, uint64(m.mapLen(v)))
		case ArrayVal:
			return m.st.Const(64, uint64(len(v)))
		case nil:
			return m.st.Const(64, 0)
		}
	case "cap":
		switch v := args[0].(type) {
		case SliceVal:
			return m.st.Const(64, uint64(v.Cap))
		case ArrayVal:
			return m.st.Const(64, uint64(len(v)))
		}
	case "append":
		return m.appendSlice(c, args)
	case "copy":
		dst := args[0].(SliceVal)
		var sp Ptr
		var sl int64
		switch s := args[1].(type) {
		case SliceVal:
			sp, sl = s.P, s.Len
		case StringVal:
			sp, sl = s.P, s.Len
		}
		es := int64(1)
		if c != nil {
			es = sizeof(c.Args[0].Type().Underlying().(*types.Slice).Elem())
		}
		n := dst.Len
		if sl < n {
			n = sl
		}
		m.copyBytes(dst.P, sp, n*es)
		return m.st.Const(64, uint64(n))
	case "delete":
		mt := c.Args[0].Type().Underlying().(*types.Map)
		m.mapDelete(mt, args[0], args[1])
		return nil
	case "print", "println":
		return nil
	case "min", "max":
		if len(args) == 2 {
			x, y := args[0].(*Term), args[1].(*Term)
			var lt *Term
			if isSigned(c.Args[0].Type()) {
				lt = m.st.Slt(x, y)
			} else {
				lt = m.st.Ult(x, y)
			}
			if b.Name() == "min" {
				return m.st.Ite(lt, x, y)
			}
			return m.st.Ite(lt, y, x)
		}
	case "ssa:wrapnilchk":
		if p, ok := args[0].(Ptr); ok && p.IsNil() {
			m.raise(fault("nil-deref", "value method called via nil pointer"))
		}
		return args[0]
	case "Sizeof":
		if c != nil {
			return m.st.Const(64, uint64(sizeof(c.Args[0].Type())))
		}
	case "Alignof":
		if c != nil {
			return m.st.Const(64, uint64(sizes.Alignof(c.Args[0].Type())))
		}
	case "Add": // unsafe.Add(ptr, len)
		p := m.ptrOperand(args[0])
		t := args[1].(*Term)
		off := m.constInt(t, "unsafe.Add offset")
		if p.ID == 0 && p.Off == 0 && off == 0 {
			return p
		}
		p.Off += off
		return p
	case "String": // unsafe.String(ptr, len)
		p := m.ptrOperand(args[0])
		l := m.constInt(args[1].(*Term), "unsafe.String len")
		if l == 0 {
			return StringVal{}
		}
		return StringVal{P: p, Len: l}
	case "StringData":
		return args[0].(StringVal).P
	case "SliceData":
		return args[0].(SliceVal).P
	case "Slice": // unsafe.Slice(ptr, len)
		p := m.ptrOperand(args[0])
		l := m.constInt(args[1].(*Term), "unsafe.Slice len")
		return SliceVal{P: p, Len: l, Cap: l}
	case "clear":
		switch v := args[0].(type) {
		case SliceVal:
			es := int64(1)
			if c != nil {
				es = sizeof(c.Args[0].Type().Underlying().(*types.Slice).Elem())
			}
			if v.Len*es > 0 {
				o := m.wobj(v.P, v.Len*es, "clear")
				m.clearRange(o, v.P.Off, v.Len*es)
			}
			return nil
		case Ptr:
			if d := m.mapData(v, true); d != nil {
				d.Entries, d.Idx, d.NonIdx = nil, nil, 0
			}
			return nil
		}
		m.unsupported("clear of %T", args[0])
	}
	m.unsupported("builtin %s", b.Name())
	return nil
}

func growCap(oldCap, need, es int64) int64 {
	nc := oldCap * 2
	if nc < need {
		nc = need
	}
	if es == 1 {
		// round up like the size classes do for small byte slices
		switch {
		case nc <= 8:
			nc = 8
		case nc <= 16:
			nc = 16
		case nc <= 24:
			nc = 24
		case nc <= 32:
			nc = 32
		case nc <= 48:
			nc = 48
		case nc <= 64:
			nc = 64
		default:
			nc = (nc + 15) &^ 15
		}
	}
	return nc
}

func (m *Machine) appendSlice(c *ssa.CallCommon, args []Value) Value {
	var es int64 = 1
	if c != nil {
		es = sizeof(c.Args[0].Type().Underlying().(*types.Slice).Elem())
	}
	var s SliceVal
	if args[0] != nil {
		s = args[0].(SliceVal)
	}
	var sp Ptr
	var sl int64
	switch a := args[1].(type) {
	case SliceVal:
		sp, sl = a.P, a.Len
	case StringVal:
		sp, sl = a.P, a.Len
	case nil:
	default:
		m.unsupported("append of %T", args[1])
	}
	if sl == 0 {
		return s
	}
	if s.Len+sl <= s.Cap {
		dst := s.P
		dst.Off += s.Len * es
		m.copyBytes(dst, sp, sl*es)
		s.Len += sl
		return s
	}
	nc := growCap(s.Cap, s.Len+sl, es)
	if es == 0 {
		return SliceVal{P: s.P, Len: s.Len + sl, Cap: nc}
	}
	o := m.w.Alloc(nc*es, "append-grow")
	np := Ptr{ID: o.id}
	if s.Len > 0 {
		m.copyBytes(np, s.P, s.Len*es)
	}
	dst := np
	dst.Off += s.Len * es
	m.copyBytes(dst, sp, sl*es)
	return SliceVal{P: np, Len: s.Len + sl, Cap: nc}
}
