package main

// Hash-consed bit-vector / boolean terms with constant folding, a light
// known-bits simplifier, a concrete evaluator (used to check solver models
// against the native replay) and an SMT-LIB2 printer.

import (
	"fmt"
	"math/bits"
	"sort"
	"strings"
)

type Op uint8

const (
	OpConst Op = iota
	OpVar
	OpAdd
	OpSub
	OpMul
	OpUDiv
	OpSDiv
	OpURem
	OpSRem
	OpAnd
	OpOr
	OpXor
	OpNot
	OpNeg
	OpShl
	OpLShr
	OpAShr
	OpConcat
	OpExtract // K = lo; width = W
	OpZExt
	OpSExt
	OpIte
	// boolean-valued (W == 0)
	OpEq
	OpUlt
	OpUle
	OpSlt
	OpSle
	OpBAnd
	OpBOr
	OpBNot
)

var opNames = map[Op]string{
	OpAdd: "bvadd", OpSub: "bvsub", OpMul: "bvmul", OpUDiv: "bvudiv", OpSDiv: "bvsdiv",
	OpURem: "bvurem", OpSRem: "bvsrem", OpAnd: "bvand", OpOr: "bvor", OpXor: "bvxor",
	OpNot: "bvnot", OpNeg: "bvneg", OpShl: "bvshl", OpLShr: "bvlshr", OpAShr: "bvashr",
	OpConcat: "concat", OpIte: "ite", OpEq: "=", OpUlt: "bvult", OpUle: "bvule",
	OpSlt: "bvslt", OpSle: "bvsle", OpBAnd: "and", OpBOr: "or", OpBNot: "not",
}

// Term is immutable. W is the bit width (1..64) or 0 for Bool.
type Term struct {
	Op   Op
	W    uint8
	K    uint64 // const value / extract low bit
	Name string // OpVar
	A    [3]*Term
	N    uint8 // number of args
	id   int32
	kz   uint64 // known-zero bits
	ko   uint64 // known-one bits
	cl   uint16 // >0: an ite-tree whose leaves are constants; number of nodes
}

type termKey struct {
	op      Op
	w       uint8
	k       uint64
	name    string
	a, b, c int32
}

type Store struct {
	tab    map[termKey]*Term
	nextID int32
	small  [65][]*Term
	True   *Term
	False  *Term
	Vars   []*Term
	varIdx map[string]*Term
}

func NewStore() *Store { return NewStoreAt(1 << 28) }

// NewStoreAt creates a store whose term ids start at first (the base world's
// store and the per-path stores use disjoint id ranges, because constants of
// the base world are reachable from per-path terms).
func NewStoreAt(first int32) *Store {
	s := &Store{tab: make(map[termKey]*Term, 1024), varIdx: map[string]*Term{}, nextID: first}
	s.True = s.mk(&Term{Op: OpConst, W: 0, K: 1})
	s.False = s.mk(&Term{Op: OpConst, W: 0, K: 0})
	return s
}

func mask(w uint8) uint64 {
	if w >= 64 {
		return ^uint64(0)
	}
	return (uint64(1) << w) - 1
}

func (s *Store) mk(t *Term) *Term {
	k := termKey{op: t.Op, w: t.W, k: t.K, name: t.Name, a: -1, b: -1, c: -1}
	if t.N > 0 {
		k.a = t.A[0].id
	}
	if t.N > 1 {
		k.b = t.A[1].id
	}
	if t.N > 2 {
		k.c = t.A[2].id
	}
	if e, ok := s.tab[k]; ok {
		return e
	}
	t.id = s.nextID
	s.nextID++
	s.computeKnown(t)
	if t.Op == OpConst {
		t.cl = 1
	} else if t.Op == OpIte && t.A[1].cl > 0 && t.A[2].cl > 0 && int(t.A[1].cl)+int(t.A[2].cl) < 8000 {
		t.cl = t.A[1].cl + t.A[2].cl + 1
	}
	s.tab[k] = t
	return t
}

func (t *Term) IsConst() bool { return t.Op == OpConst }
func (t *Term) IsBool() bool  { return t.W == 0 }
func (t *Term) IsTrue() bool  { return t.Op == OpConst && t.W == 0 && t.K == 1 }
func (t *Term) IsFalse() bool { return t.Op == OpConst && t.W == 0 && t.K == 0 }

// Signed value of a constant.
func (t *Term) SVal() int64 { return sext(t.K, t.W) }

func sext(v uint64, w uint8) int64 {
	if w >= 64 {
		return int64(v)
	}
	sh := 64 - uint(w)
	return int64(v<<sh) >> sh
}

func (s *Store) Const(w uint8, v uint64) *Term {
	if w == 0 {
		if v != 0 {
			return s.True
		}
		return s.False
	}
	v &= mask(w)
	if v < 256 {
		if s.small[w] == nil {
			s.small[w] = make([]*Term, 256)
		}
		if t := s.small[w][v]; t != nil {
			return t
		}
		t := s.mk(&Term{Op: OpConst, W: w, K: v})
		s.small[w][v] = t
		return t
	}
	return s.mk(&Term{Op: OpConst, W: w, K: v})
}

func (s *Store) Bool(b bool) *Term {
	if b {
		return s.True
	}
	return s.False
}

func (s *Store) Var(name string, w uint8) *Term {
	key := fmt.Sprintf("%s#%d", name, w)
	if v, ok := s.varIdx[key]; ok {
		return v
	}
	t := s.mk(&Term{Op: OpVar, W: w, Name: name})
	s.varIdx[key] = t
	s.Vars = append(s.Vars, t)
	return t
}

func (s *Store) computeKnown(t *Term) {
	if t.W == 0 {
		return
	}
	m := mask(t.W)
	switch t.Op {
	case OpConst:
		t.ko = t.K
		t.kz = ^t.K & m
	case OpAnd:
		t.ko = t.A[0].ko & t.A[1].ko
		t.kz = (t.A[0].kz | t.A[1].kz) & m
	case OpOr:
		t.ko = t.A[0].ko | t.A[1].ko
		t.kz = t.A[0].kz & t.A[1].kz
	case OpXor:
		a, b := t.A[0], t.A[1]
		t.ko = (a.ko & b.kz) | (a.kz & b.ko)
		t.kz = (a.kz & b.kz) | (a.ko & b.ko)
	case OpNot:
		t.ko = t.A[0].kz
		t.kz = t.A[0].ko
	case OpZExt:
		a := t.A[0]
		t.ko = a.ko
		t.kz = (a.kz | (m &^ mask(a.W))) & m
	case OpSExt:
		a := t.A[0]
		sign := uint64(1) << (a.W - 1)
		hi := m &^ mask(a.W)
		t.ko = a.ko
		t.kz = a.kz
		if a.kz&sign != 0 {
			t.kz |= hi
		}
		if a.ko&sign != 0 {
			t.ko |= hi
		}
	case OpExtract:
		a := t.A[0]
		t.ko = (a.ko >> t.K) & m
		t.kz = (a.kz >> t.K) & m
	case OpConcat:
		a, b := t.A[0], t.A[1]
		t.ko = (a.ko << b.W) | b.ko
		t.kz = ((a.kz << b.W) | b.kz) & m
	case OpShl:
		if t.A[1].IsConst() && t.A[1].K < uint64(t.W) {
			k := t.A[1].K
			t.ko = (t.A[0].ko << k) & m
			t.kz = ((t.A[0].kz << k) | mask(uint8(k))) & m
		}
	case OpLShr:
		if t.A[1].IsConst() && t.A[1].K < uint64(t.W) {
			k := t.A[1].K
			t.ko = t.A[0].ko >> k
			t.kz = ((t.A[0].kz >> k) | (m &^ (m >> k))) & m
		}
	case OpIte:
		t.ko = t.A[1].ko & t.A[2].ko
		t.kz = t.A[1].kz & t.A[2].kz
	case OpURem:
		if t.A[1].IsConst() && t.A[1].K != 0 {
			// result < divisor
			l := bits.Len64(t.A[1].K - 1)
			t.kz = m &^ mask(uint8(l))
		}
	case OpAdd:
		// low known-zero bits propagate
		a, b := t.A[0], t.A[1]
		tz := bits.TrailingZeros64(^a.kz)
		tz2 := bits.TrailingZeros64(^b.kz)
		if tz2 < tz {
			tz = tz2
		}
		if tz > int(t.W) {
			tz = int(t.W)
		}
		t.kz = mask(uint8(tz))
		// upper bound: if both have leading known zeros, sum has (min-1) leading zeros
		la := bits.LeadingZeros64(^(a.kz | ^m)) - (64 - int(t.W))
		lb := bits.LeadingZeros64(^(b.kz | ^m)) - (64 - int(t.W))
		if la > lb {
			la = lb
		}
		if la > 1 {
			t.kz |= m &^ mask(t.W-uint8(la)+1)
		}
	}
}

// umin/umax from known bits
func (t *Term) umin() uint64 { return t.ko }
func (t *Term) umax() uint64 { return ^t.kz & mask(t.W) }

func (s *Store) un(op Op, w uint8, a *Term) *Term {
	return s.mk(&Term{Op: op, W: w, A: [3]*Term{a}, N: 1})
}
func (s *Store) bin(op Op, w uint8, a, b *Term) *Term {
	return s.mk(&Term{Op: op, W: w, A: [3]*Term{a, b}, N: 2})
}

// mapLeaves rebuilds a constant-leaf ite tree applying f to every leaf.
func (s *Store) mapLeaves(t *Term, f func(*Term) *Term, memo map[*Term]*Term) *Term {
	if r, ok := memo[t]; ok {
		return r
	}
	var r *Term
	if t.Op == OpConst {
		r = f(t)
	} else {
		r = s.Ite(t.A[0], s.mapLeaves(t.A[1], f, memo), s.mapLeaves(t.A[2], f, memo))
	}
	memo[t] = r
	return r
}

func isTree(t *Term) bool { return t.cl > 1 }

// mapBool turns a constant-leaf ite tree into a boolean by applying the
// (constant-folding) predicate f to every leaf.
func (s *Store) mapBool(t *Term, f func(*Term) *Term, memo map[*Term]*Term) *Term {
	if r, ok := memo[t]; ok {
		return r
	}
	var r *Term
	if t.Op == OpConst {
		r = f(t)
	} else {
		x := s.mapBool(t.A[1], f, memo)
		y := s.mapBool(t.A[2], f, memo)
		r = s.Ite(t.A[0], x, y)
	}
	memo[t] = r
	return r
}

func isCommutative(op Op) bool {
	switch op {
	case OpAdd, OpMul, OpAnd, OpOr, OpXor, OpEq, OpBAnd, OpBOr:
		return true
	}
	return false
}

// BV binary operation with folding. a and b must have the same width.
func (s *Store) BV(op Op, a, b *Term) *Term {
	if a.W != b.W || a.W == 0 {
		panic(fmt.Sprintf("BV %v: width mismatch %d vs %d", opNames[op], a.W, b.W))
	}
	w := a.W
	m := mask(w)
	if a.IsConst() && b.IsConst() {
		x, y := a.K, b.K
		var r uint64
		switch op {
		case OpAdd:
			r = x + y
		case OpSub:
			r = x - y
		case OpMul:
			r = x * y
		case OpUDiv:
			if y == 0 {
				r = m
			} else {
				r = x / y
			}
		case OpURem:
			if y == 0 {
				r = x
			} else {
				r = x % y
			}
		case OpSDiv:
			sx, sy := sext(x, w), sext(y, w)
			if sy == 0 {
				if sx < 0 {
					r = 1
				} else {
					r = m
				}
			} else if sy == -1 {
				r = uint64(-sx)
			} else {
				r = uint64(sx / sy)
			}
		case OpSRem:
			sx, sy := sext(x, w), sext(y, w)
			if sy == 0 {
				r = x
			} else if sy == -1 {
				r = 0
			} else {
				r = uint64(sx % sy)
			}
		case OpAnd:
			r = x & y
		case OpOr:
			r = x | y
		case OpXor:
			r = x ^ y
		case OpShl:
			if y >= uint64(w) {
				r = 0
			} else {
				r = x << y
			}
		case OpLShr:
			if y >= uint64(w) {
				r = 0
			} else {
				r = x >> y
			}
		case OpAShr:
			sx := sext(x, w)
			if y >= uint64(w) {
				y = uint64(w) - 1
			}
			r = uint64(sx >> y)
		default:
			panic("BV: bad op")
		}
		return s.Const(w, r)
	}
	if isTree(a) && b.IsConst() {
		return s.mapLeaves(a, func(l *Term) *Term { return s.BV(op, l, b) }, map[*Term]*Term{})
	}
	if isTree(b) && a.IsConst() {
		return s.mapLeaves(b, func(l *Term) *Term { return s.BV(op, a, l) }, map[*Term]*Term{})
	}
	if isTree(a) && isTree(b) && int(a.cl)*int(b.cl) <= 40000 {
		// both operands are constant-leaf decision trees (typically varint
		// sizes): combine them leaf by leaf so that the result is again one
		inner := map[uint64]*Term{}
		return s.mapLeaves(a, func(la *Term) *Term {
			if r, ok := inner[la.K]; ok {
				return r
			}
			r := s.mapLeaves(b, func(lb *Term) *Term { return s.BV(op, la, lb) }, map[*Term]*Term{})
			inner[la.K] = r
			return r
		}, map[*Term]*Term{})
	}
	if isCommutative(op) && a.IsConst() {
		a, b = b, a
	}
	// identities with constant rhs
	if b.IsConst() {
		switch op {
		case OpAdd, OpSub, OpOr, OpXor, OpShl, OpLShr, OpAShr:
			if b.K == 0 {
				return a
			}
			if op == OpOr && b.K == m {
				return b
			}
			if (op == OpShl || op == OpLShr) && b.K >= uint64(w) {
				return s.Const(w, 0)
			}
		case OpAnd:
			if b.K == 0 {
				return b
			}
			if b.K == m {
				return a
			}
			// all bits cleared by mask already known zero, and kept bits... :
			if a.kz|b.K == m && (^b.K&m)&^a.kz == 0 {
				return a
			}
			if (a.kz|^b.K)&m == m {
				return s.Const(w, 0)
			}
		case OpMul:
			if b.K == 0 {
				return b
			}
			if b.K == 1 {
				return a
			}
		case OpUDiv:
			if b.K == 1 {
				return a
			}
		}
		// (x + c1) + c2
		if op == OpAdd && a.Op == OpAdd && a.A[1].IsConst() {
			return s.BV(OpAdd, a.A[0], s.Const(w, a.A[1].K+b.K))
		}
		if op == OpSub {
			return s.BV(OpAdd, a, s.Const(w, -b.K))
		}
		// fully known result via known bits
		if op == OpAnd || op == OpOr {
			t := s.bin(op, w, a, b)
			if t.ko|t.kz == m {
				return s.Const(w, t.ko)
			}
			return t
		}
	}
	if a == b {
		switch op {
		case OpAnd, OpOr:
			return a
		case OpXor, OpSub:
			return s.Const(w, 0)
		}
	}
	if a.IsConst() && a.K == 0 {
		switch op {
		case OpShl, OpLShr, OpAShr, OpUDiv, OpURem:
			return a
		}
	}
	if isCommutative(op) && a.id > b.id && !b.IsConst() {
		a, b = b, a
	}
	t := s.bin(op, w, a, b)
	if t.ko|t.kz == m {
		return s.Const(w, t.ko)
	}
	return t
}

func (s *Store) Not(a *Term) *Term {
	if a.IsConst() {
		return s.Const(a.W, ^a.K)
	}
	if a.Op == OpNot {
		return a.A[0]
	}
	return s.un(OpNot, a.W, a)
}

func (s *Store) Neg(a *Term) *Term {
	if a.IsConst() {
		return s.Const(a.W, -a.K)
	}
	if a.Op == OpNeg {
		return a.A[0]
	}
	return s.un(OpNeg, a.W, a)
}

func (s *Store) ZExt(a *Term, w uint8) *Term {
	if a.W == w {
		return a
	}
	if a.W > w {
		return s.Extract(a, 0, w)
	}
	if a.IsConst() {
		return s.Const(w, a.K)
	}
	if isTree(a) {
		return s.mapLeaves(a, func(l *Term) *Term { return s.ZExt(l, w) }, map[*Term]*Term{})
	}
	if a.Op == OpZExt {
		return s.ZExt(a.A[0], w)
	}
	return s.un(OpZExt, w, a)
}

func (s *Store) SExt(a *Term, w uint8) *Term {
	if a.W == w {
		return a
	}
	if a.W > w {
		return s.Extract(a, 0, w)
	}
	if a.IsConst() {
		return s.Const(w, uint64(sext(a.K, a.W)))
	}
	if isTree(a) {
		return s.mapLeaves(a, func(l *Term) *Term { return s.SExt(l, w) }, map[*Term]*Term{})
	}
	if a.kz&(uint64(1)<<(a.W-1)) != 0 {
		return s.ZExt(a, w)
	}
	if a.Op == OpSExt {
		return s.SExt(a.A[0], w)
	}
	return s.un(OpSExt, w, a)
}

// Extract w bits starting at bit lo.
func (s *Store) Extract(a *Term, lo uint8, w uint8) *Term {
	if lo == 0 && w == a.W {
		return a
	}
	if lo+w > a.W {
		panic("Extract out of range")
	}
	if a.IsConst() {
		return s.Const(w, a.K>>lo)
	}
	if isTree(a) {
		return s.mapLeaves(a, func(l *Term) *Term { return s.Extract(l, lo, w) }, map[*Term]*Term{})
	}
	switch a.Op {
	case OpExtract:
		return s.Extract(a.A[0], lo+uint8(a.K), w)
	case OpZExt:
		in := a.A[0]
		if lo >= in.W {
			return s.Const(w, 0)
		}
		if lo+w <= in.W {
			return s.Extract(in, lo, w)
		}
		return s.ZExt(s.Extract(in, lo, in.W-lo), w)
	case OpSExt:
		in := a.A[0]
		if lo+w <= in.W {
			return s.Extract(in, lo, w)
		}
		if lo == 0 {
			return s.SExt(in, w)
		}
	case OpConcat:
		hi, l := a.A[0], a.A[1]
		if lo+w <= l.W {
			return s.Extract(l, lo, w)
		}
		if lo >= l.W {
			return s.Extract(hi, lo-l.W, w)
		}
		return s.Concat(s.Extract(hi, 0, lo+w-l.W), s.Extract(l, lo, l.W-lo))
	case OpAnd, OpOr, OpXor:
		// only with a constant operand (masks): pushing the extract into two
		// symbolic operands hides the term the path condition talks about
		if a.A[1].IsConst() || a.A[0].IsConst() {
			return s.BV(a.Op, s.Extract(a.A[0], lo, w), s.Extract(a.A[1], lo, w))
		}
	case OpNot:
		return s.Not(s.Extract(a.A[0], lo, w))
	case OpIte:
		if a.A[1].IsConst() && a.A[2].IsConst() {
			return s.Ite(a.A[0], s.Extract(a.A[1], lo, w), s.Extract(a.A[2], lo, w))
		}
	case OpAdd, OpSub, OpMul:
		if lo == 0 {
			return s.BV(a.Op, s.Extract(a.A[0], 0, w), s.Extract(a.A[1], 0, w))
		}
	case OpShl:
		if lo == 0 && a.A[1].IsConst() {
			return s.BV(OpShl, s.Extract(a.A[0], 0, w), s.Const(w, a.A[1].K))
		}
	case OpLShr:
		if a.A[1].IsConst() && a.A[1].K+uint64(lo)+uint64(w) <= uint64(a.W) {
			return s.Extract(a.A[0], lo+uint8(a.A[1].K), w)
		}
	}
	t := s.mk(&Term{Op: OpExtract, W: w, K: uint64(lo), A: [3]*Term{a}, N: 1})
	if t.ko|t.kz == mask(w) {
		return s.Const(w, t.ko)
	}
	return t
}

// Concat: hi is the most significant part.
func (s *Store) Concat(hi, lo *Term) *Term {
	w := hi.W + lo.W
	if w > 64 {
		panic("Concat wider than 64")
	}
	if hi.IsConst() && lo.IsConst() {
		return s.Const(w, hi.K<<lo.W|lo.K)
	}
	if hi.IsConst() && hi.K == 0 {
		return s.ZExt(lo, w)
	}
	// concat(extract(x, k+n, m), extract(x, k, n)) = extract(x, k, n+m)
	if hi.Op == OpExtract && lo.Op == OpExtract && hi.A[0] == lo.A[0] && hi.K == lo.K+uint64(lo.W) {
		return s.Extract(hi.A[0], uint8(lo.K), w)
	}
	if hi.Op == OpExtract && hi.A[0] == lo && hi.K == uint64(lo.W) {
		return s.Extract(lo, 0, w) // cannot happen (w>lo.W) but harmless
	}
	// concat(extract(x, n, m), x[0:n]) where lo is x itself truncated: lo = extract(x,0,n)
	if hi.Op == OpExtract && lo.Op != OpExtract && hi.A[0].W >= w && hi.K == uint64(lo.W) {
		if e := s.Extract(hi.A[0], 0, lo.W); e == lo {
			return s.Extract(hi.A[0], 0, w)
		}
	}
	return s.bin(OpConcat, w, hi, lo)
}

func (s *Store) Ite(c, a, b *Term) *Term {
	if c.IsTrue() {
		return a
	}
	if c.IsFalse() {
		return b
	}
	if a == b {
		return a
	}
	if a.W == 0 {
		// boolean ite
		if a.IsTrue() && b.IsFalse() {
			return c
		}
		if a.IsFalse() && b.IsTrue() {
			return s.BNot(c)
		}
		return s.BOr(s.BAnd(c, a), s.BAnd(s.BNot(c), b))
	}
	if c.Op == OpBNot {
		return s.Ite(c.A[0], b, a)
	}
	// ite(c1, X, ite(c2, X, R)) = ite(c1 or c2, X, R)
	if b.Op == OpIte && b.A[1] == a {
		return s.Ite(s.BOr(c, b.A[0]), a, b.A[2])
	}
	if a.Op == OpIte && a.A[2] == b {
		// ite(c1, ite(c2, Y, X), X) = ite(c1 and c2, Y, X)
		return s.Ite(s.BAnd(c, a.A[0]), a.A[1], b)
	}
	return s.mk(&Term{Op: OpIte, W: a.W, A: [3]*Term{c, a, b}, N: 3})
}

func (s *Store) BNot(a *Term) *Term {
	if a.IsConst() {
		return s.Bool(a.K == 0)
	}
	if a.Op == OpBNot {
		return a.A[0]
	}
	return s.un(OpBNot, 0, a)
}

func (s *Store) BAnd(a, b *Term) *Term {
	if a.IsFalse() || b.IsFalse() {
		return s.False
	}
	if a.IsTrue() {
		return b
	}
	if b.IsTrue() {
		return a
	}
	if a == b {
		return a
	}
	if (a.Op == OpBNot && a.A[0] == b) || (b.Op == OpBNot && b.A[0] == a) {
		return s.False
	}
	if a.id > b.id {
		a, b = b, a
	}
	return s.bin(OpBAnd, 0, a, b)
}

func (s *Store) BOr(a, b *Term) *Term {
	if a.IsTrue() || b.IsTrue() {
		return s.True
	}
	if a.IsFalse() {
		return b
	}
	if b.IsFalse() {
		return a
	}
	if a == b {
		return a
	}
	if (a.Op == OpBNot && a.A[0] == b) || (b.Op == OpBNot && b.A[0] == a) {
		return s.True
	}
	if a.id > b.id {
		a, b = b, a
	}
	return s.bin(OpBOr, 0, a, b)
}

func (s *Store) Eq(a, b *Term) *Term {
	if a.W != b.W {
		panic(fmt.Sprintf("Eq width mismatch %d %d", a.W, b.W))
	}
	if a == b {
		return s.True
	}
	if a.W == 0 {
		// iff
		if a.IsConst() {
			if a.K == 1 {
				return b
			}
			return s.BNot(b)
		}
		if b.IsConst() {
			if b.K == 1 {
				return a
			}
			return s.BNot(a)
		}
		return s.BOr(s.BAnd(a, b), s.BAnd(s.BNot(a), s.BNot(b)))
	}
	if a.IsConst() && b.IsConst() {
		return s.Bool(a.K == b.K)
	}
	if a.IsConst() {
		a, b = b, a
	}
	// known bits contradiction
	if a.ko&b.kz != 0 || a.kz&b.ko != 0 {
		return s.False
	}
	if isTree(a) && b.IsConst() {
		return s.mapBool(a, func(l *Term) *Term { return s.Eq(l, b) }, map[*Term]*Term{})
	}
	if b.IsConst() {
		switch a.Op {
		case OpIte:
			// ite(c, k1, k2) == k
			if a.A[1].IsConst() && a.A[2].IsConst() {
				t1 := a.A[1].K == b.K
				t2 := a.A[2].K == b.K
				switch {
				case t1 && t2:
					return s.True
				case t1:
					return a.A[0]
				case t2:
					return s.BNot(a.A[0])
				default:
					return s.False
				}
			}
		case OpZExt:
			if b.K > mask(a.A[0].W) {
				return s.False
			}
			return s.Eq(a.A[0], s.Const(a.A[0].W, b.K))
		case OpAdd:
			if a.A[1].IsConst() {
				return s.Eq(a.A[0], s.Const(a.W, b.K-a.A[1].K))
			}
		case OpXor:
			if a.A[1].IsConst() {
				return s.Eq(a.A[0], s.Const(a.W, b.K^a.A[1].K))
			}
		case OpConcat:
			hi, lo := a.A[0], a.A[1]
			return s.BAnd(s.Eq(hi, s.Const(hi.W, b.K>>lo.W)), s.Eq(lo, s.Const(lo.W, b.K)))
		}
	}
	if a.id > b.id && !b.IsConst() {
		a, b = b, a
	}
	return s.bin(OpEq, 0, a, b)
}

func (s *Store) Ne(a, b *Term) *Term { return s.BNot(s.Eq(a, b)) }

func (s *Store) Ult(a, b *Term) *Term {
	if a.W != b.W {
		panic("Ult width mismatch")
	}
	if a == b {
		return s.False
	}
	if a.IsConst() && b.IsConst() {
		return s.Bool(a.K < b.K)
	}
	if a.umax() < b.umin() {
		return s.True
	}
	if a.umin() >= b.umax() {
		return s.False
	}
	if isTree(a) && b.IsConst() {
		return s.mapBool(a, func(l *Term) *Term { return s.Ult(l, b) }, map[*Term]*Term{})
	}
	if isTree(b) && a.IsConst() {
		return s.mapBool(b, func(l *Term) *Term { return s.Ult(a, l) }, map[*Term]*Term{})
	}
	if b.IsConst() && b.K == 1 {
		return s.Eq(a, s.Const(a.W, 0))
	}
	if a.Op == OpZExt && b.Op == OpZExt && a.A[0].W == b.A[0].W {
		return s.Ult(a.A[0], b.A[0])
	}
	if a.Op == OpZExt && b.IsConst() {
		in := a.A[0]
		if b.K > mask(in.W) {
			return s.True
		}
		return s.Ult(in, s.Const(in.W, b.K))
	}
	if b.Op == OpZExt && a.IsConst() {
		in := b.A[0]
		if a.K >= mask(in.W) {
			return s.False
		}
		return s.Ult(s.Const(in.W, a.K), in)
	}
	return s.bin(OpUlt, 0, a, b)
}

func (s *Store) Ule(a, b *Term) *Term { return s.BNot(s.Ult(b, a)) }

func (s *Store) Slt(a, b *Term) *Term {
	if a.W != b.W {
		panic("Slt width mismatch")
	}
	if a == b {
		return s.False
	}
	if a.IsConst() && b.IsConst() {
		return s.Bool(a.SVal() < b.SVal())
	}
	if isTree(a) && b.IsConst() {
		return s.mapBool(a, func(l *Term) *Term { return s.Slt(l, b) }, map[*Term]*Term{})
	}
	if isTree(b) && a.IsConst() {
		return s.mapBool(b, func(l *Term) *Term { return s.Slt(a, l) }, map[*Term]*Term{})
	}
	sign := uint64(1) << (a.W - 1)
	// both known non-negative: unsigned compare
	if a.kz&sign != 0 && b.kz&sign != 0 {
		return s.Ult(a, b)
	}
	if a.ko&sign != 0 && b.kz&sign != 0 {
		return s.True
	}
	if a.kz&sign != 0 && b.ko&sign != 0 {
		return s.False
	}
	if a.Op == OpSExt && b.Op == OpSExt && a.A[0].W == b.A[0].W {
		return s.Slt(a.A[0], b.A[0])
	}
	return s.bin(OpSlt, 0, a, b)
}

func (s *Store) Sle(a, b *Term) *Term { return s.BNot(s.Slt(b, a)) }

// ---------- evaluation under an assignment ----------

type Model map[string]uint64

func EvalTerm(t *Term, m Model, memo map[*Term]uint64) uint64 {
	if v, ok := memo[t]; ok {
		return v
	}
	var r uint64
	w := t.W
	ms := mask(w)
	arg := func(i int) uint64 { return EvalTerm(t.A[i], m, memo) }
	switch t.Op {
	case OpConst:
		r = t.K
	case OpVar:
		r = m[t.Name] & ms
	case OpAdd:
		r = arg(0) + arg(1)
	case OpSub:
		r = arg(0) - arg(1)
	case OpMul:
		r = arg(0) * arg(1)
	case OpUDiv:
		if y := arg(1); y == 0 {
			r = ms
		} else {
			r = arg(0) / y
		}
	case OpURem:
		if y := arg(1); y == 0 {
			r = arg(0)
		} else {
			r = arg(0) % y
		}
	case OpSDiv:
		sx, sy := sext(arg(0), w), sext(arg(1), w)
		if sy == 0 {
			if sx < 0 {
				r = 1
			} else {
				r = ms
			}
		} else if sy == -1 {
			r = uint64(-sx)
		} else {
			r = uint64(sx / sy)
		}
	case OpSRem:
		sx, sy := sext(arg(0), w), sext(arg(1), w)
		if sy == 0 {
			r = uint64(sx)
		} else if sy == -1 {
			r = 0
		} else {
			r = uint64(sx % sy)
		}
	case OpAnd:
		r = arg(0) & arg(1)
	case OpOr:
		r = arg(0) | arg(1)
	case OpXor:
		r = arg(0) ^ arg(1)
	case OpNot:
		r = ^arg(0)
	case OpNeg:
		r = -arg(0)
	case OpShl:
		if y := arg(1); y >= uint64(w) {
			r = 0
		} else {
			r = arg(0) << y
		}
	case OpLShr:
		if y := arg(1); y >= uint64(w) {
			r = 0
		} else {
			r = arg(0) >> y
		}
	case OpAShr:
		y := arg(1)
		if y >= uint64(w) {
			y = uint64(w) - 1
		}
		r = uint64(sext(arg(0), w) >> y)
	case OpConcat:
		r = arg(0)<<t.A[1].W | arg(1)
	case OpExtract:
		r = arg(0) >> t.K
	case OpZExt:
		r = arg(0)
	case OpSExt:
		r = uint64(sext(arg(0), t.A[0].W))
	case OpIte:
		if arg(0) != 0 {
			r = arg(1)
		} else {
			r = arg(2)
		}
	case OpEq:
		r = b2u(arg(0) == arg(1))
	case OpUlt:
		r = b2u(arg(0) < arg(1))
	case OpUle:
		r = b2u(arg(0) <= arg(1))
	case OpSlt:
		r = b2u(sext(arg(0), t.A[0].W) < sext(arg(1), t.A[0].W))
	case OpSle:
		r = b2u(sext(arg(0), t.A[0].W) <= sext(arg(1), t.A[0].W))
	case OpBAnd:
		r = arg(0) & arg(1)
	case OpBOr:
		r = arg(0) | arg(1)
	case OpBNot:
		r = arg(0) ^ 1
	default:
		panic("EvalTerm: bad op")
	}
	if w == 0 {
		r &= 1
	} else {
		r &= ms
	}
	memo[t] = r
	return r
}

func b2u(b bool) uint64 {
	if b {
		return 1
	}
	return 0
}

// ---------- SMT-LIB printing ----------

func smtName(n string) string {
	var sb strings.Builder
	sb.WriteString("v_")
	for _, c := range n {
		switch {
		case c >= 'a' && c <= 'z', c >= 'A' && c <= 'Z', c >= '0' && c <= '9', c == '_':
			sb.WriteRune(c)
		default:
			sb.WriteString(fmt.Sprintf("_%x_", c))
		}
	}
	return sb.String()
}

func bvLit(w uint8, v uint64) string {
	if w%4 == 0 {
		return fmt.Sprintf("#x%0*x", int(w/4), v)
	}
	return fmt.Sprintf("#b%0*b", int(w), v)
}

// Printer prints terms, naming shared sub-terms with define-fun so that
// repeated assertions in one solver context share definitions.
type Printer struct {
	defined map[int32]bool
	decl    map[string]bool
	out     *strings.Builder
	refs    map[int32]int
}

// collectVars returns the variables occurring in the given terms.
func collectVars(ts []*Term) []*Term {
	seen := map[int32]bool{}
	var vars []*Term
	var walk func(t *Term)
	walk = func(t *Term) {
		if seen[t.id] {
			return
		}
		seen[t.id] = true
		if t.Op == OpVar {
			vars = append(vars, t)
		}
		for i := 0; i < int(t.N); i++ {
			walk(t.A[i])
		}
	}
	for _, t := range ts {
		walk(t)
	}
	sort.Slice(vars, func(i, j int) bool { return vars[i].id < vars[j].id })
	return vars
}

// TermSMT renders t as a self-contained SMT-LIB expression using let for
// shared nodes.
func TermSMT(t *Term) string {
	refs := map[int32]int{}
	var count func(t *Term)
	count = func(t *Term) {
		refs[t.id]++
		if refs[t.id] > 1 {
			return
		}
		for i := 0; i < int(t.N); i++ {
			count(t.A[i])
		}
	}
	count(t)
	// topological order of shared, non-leaf nodes
	var order []*Term
	seen := map[int32]bool{}
	var topo func(t *Term)
	topo = func(t *Term) {
		if seen[t.id] {
			return
		}
		seen[t.id] = true
		for i := 0; i < int(t.N); i++ {
			topo(t.A[i])
		}
		if refs[t.id] > 1 && t.N > 0 {
			order = append(order, t)
		}
	}
	topo(t)
	named := map[int32]string{}
	var pr func(t *Term, top bool) string
	pr = func(t *Term, top bool) string {
		if !top {
			if n, ok := named[t.id]; ok {
				return n
			}
		}
		switch t.Op {
		case OpConst:
			if t.W == 0 {
				if t.K != 0 {
					return "true"
				}
				return "false"
			}
			return bvLit(t.W, t.K)
		case OpVar:
			return smtName(t.Name)
		case OpExtract:
			return fmt.Sprintf("((_ extract %d %d) %s)", int(t.K)+int(t.W)-1, t.K, pr(t.A[0], false))
		case OpZExt:
			return fmt.Sprintf("((_ zero_extend %d) %s)", t.W-t.A[0].W, pr(t.A[0], false))
		case OpSExt:
			return fmt.Sprintf("((_ sign_extend %d) %s)", t.W-t.A[0].W, pr(t.A[0], false))
		}
		var sb strings.Builder
		sb.WriteByte('(')
		sb.WriteString(opNames[t.Op])
		for i := 0; i < int(t.N); i++ {
			sb.WriteByte(' ')
			sb.WriteString(pr(t.A[i], false))
		}
		sb.WriteByte(')')
		return sb.String()
	}
	var sb strings.Builder
	for i, n := range order {
		if n == t {
			continue
		}
		name := fmt.Sprintf("a!%d", i)
		sb.WriteString("(let ((")
		sb.WriteString(name)
		sb.WriteByte(' ')
		sb.WriteString(pr(n, true))
		sb.WriteString(")) ")
		named[n.id] = name
	}
	sb.WriteString(pr(t, true))
	for _, n := range order {
		if n == t {
			continue
		}
		sb.WriteByte(')')
	}
	return sb.String()
}

func (t *Term) String() string {
	s := TermSMT(t)
	if len(s) > 400 {
		return s[:400] + "..."
	}
	return s
}
