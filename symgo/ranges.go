package main

// A sound, incomplete decision procedure used in front of the solver:
// unsigned interval facts are harvested from the conjuncts of the path
// condition (t < K, t >= K, t == K and their mirror images) and propagated
// through a few monotone operators. A branch condition that the intervals
// already decide needs no solver query. Everything here only ever concludes
// what the path condition implies; when in doubt it answers "unknown" and
// the solver is asked.

type urange struct{ lo, hi uint64 }

func (m *Machine) tighten(t *Term, lo, hi uint64) {
	if t.W == 0 || t.IsConst() {
		return
	}
	if m.facts == nil {
		m.facts = map[*Term]urange{}
	}
	r, ok := m.facts[t]
	if !ok {
		r = urange{0, mask(t.W)}
	}
	if lo > r.lo {
		r.lo = lo
	}
	if hi < r.hi {
		r.hi = hi
	}
	m.facts[t] = r
	m.rangeMemo = nil
	// a bound on (a >> k) bounds a; a bound on zext(a) bounds a
	switch t.Op {
	case OpLShr:
		if t.A[1].IsConst() && t.A[1].K < uint64(t.W) {
			k := t.A[1].K
			w := mask(t.W)
			nlo, nhi := uint64(0), w
			if r.lo <= w>>k {
				nlo = r.lo << k
			}
			if r.hi <= w>>k {
				nhi = r.hi<<k | (uint64(1)<<k - 1)
			}
			m.tighten(t.A[0], nlo, nhi)
		}
	case OpZExt:
		aw := mask(t.A[0].W)
		hi := r.hi
		if hi > aw {
			hi = aw
		}
		if r.lo <= aw {
			m.tighten(t.A[0], r.lo, hi)
		}
	}
}

// recordFact harvests interval facts from a conjunct of the path condition.
func (m *Machine) recordFact(c *Term) {
	switch c.Op {
	case OpBAnd:
		m.recordFact(c.A[0])
		m.recordFact(c.A[1])
	case OpUlt:
		a, b := c.A[0], c.A[1]
		if b.IsConst() && b.K > 0 {
			m.tighten(a, 0, b.K-1)
		}
		if a.IsConst() && a.K < mask(a.W) {
			m.tighten(b, a.K+1, mask(b.W))
		}
	case OpEq:
		a, b := c.A[0], c.A[1]
		if a.W == 0 {
			return
		}
		if b.IsConst() {
			m.tighten(a, b.K, b.K)
		} else if a.IsConst() {
			m.tighten(b, a.K, a.K)
		}
	case OpBNot:
		x := c.A[0]
		if x.Op == OpUlt { // not (a < b)  <=>  a >= b
			a, b := x.A[0], x.A[1]
			if b.IsConst() {
				m.tighten(a, b.K, mask(a.W))
			}
			if a.IsConst() {
				m.tighten(b, 0, a.K)
			}
		}
	}
}

func (m *Machine) rangeOf(t *Term) urange {
	if t.W == 0 {
		return urange{0, 1}
	}
	if t.IsConst() {
		return urange{t.K, t.K}
	}
	if r, ok := m.rangeMemo[t]; ok {
		return r
	}
	w := mask(t.W)
	r := urange{t.umin(), t.umax()}
	meet := func(lo, hi uint64) {
		if lo > r.lo {
			r.lo = lo
		}
		if hi < r.hi {
			r.hi = hi
		}
	}
	if f, ok := m.facts[t]; ok {
		meet(f.lo, f.hi)
	}
	switch t.Op {
	case OpZExt:
		a := m.rangeOf(t.A[0])
		meet(a.lo, a.hi)
	case OpExtract:
		a := m.rangeOf(t.A[0])
		if a.hi>>t.K <= w {
			meet(a.lo>>t.K, a.hi>>t.K)
		}
	case OpLShr:
		if t.A[1].IsConst() && t.A[1].K < uint64(t.W) {
			a := m.rangeOf(t.A[0])
			k := t.A[1].K
			meet(a.lo>>k, a.hi>>k)
		}
	case OpShl:
		if t.A[1].IsConst() && t.A[1].K < uint64(t.W) {
			a := m.rangeOf(t.A[0])
			k := t.A[1].K
			if a.hi <= w>>k {
				meet(a.lo<<k, a.hi<<k)
			}
		}
	case OpAnd:
		if t.A[1].IsConst() {
			a := m.rangeOf(t.A[0])
			hi := a.hi
			if t.A[1].K < hi {
				hi = t.A[1].K
			}
			meet(0, hi)
		}
	case OpAdd:
		if t.A[1].IsConst() {
			a := m.rangeOf(t.A[0])
			k := t.A[1].K
			if a.hi <= w-k && k <= w {
				meet(a.lo+k, a.hi+k)
			}
		}
	case OpIte:
		x, y := m.rangeOf(t.A[1]), m.rangeOf(t.A[2])
		lo, hi := x.lo, x.hi
		if y.lo < lo {
			lo = y.lo
		}
		if y.hi > hi {
			hi = y.hi
		}
		meet(lo, hi)
	}
	if m.rangeMemo == nil {
		m.rangeMemo = map[*Term]urange{}
	}
	m.rangeMemo[t] = r
	return r
}

// implied: +1 the path condition implies c, -1 it implies not c, 0 unknown.
func (m *Machine) implied(c *Term) int {
	switch c.Op {
	case OpConst:
		if c.K != 0 {
			return 1
		}
		return -1
	case OpBNot:
		return -m.implied(c.A[0])
	case OpBAnd:
		x, y := m.implied(c.A[0]), m.implied(c.A[1])
		if x == -1 || y == -1 {
			return -1
		}
		if x == 1 && y == 1 {
			return 1
		}
	case OpBOr:
		x, y := m.implied(c.A[0]), m.implied(c.A[1])
		if x == 1 || y == 1 {
			return 1
		}
		if x == -1 && y == -1 {
			return -1
		}
	case OpUlt:
		a, b := m.rangeOf(c.A[0]), m.rangeOf(c.A[1])
		if a.lo > a.hi || b.lo > b.hi {
			return 0 // contradictory facts: the path is infeasible, let the solver say so
		}
		if a.hi < b.lo {
			return 1
		}
		if a.lo >= b.hi {
			return -1
		}
	case OpEq:
		if c.A[0].W == 0 {
			return 0
		}
		a, b := m.rangeOf(c.A[0]), m.rangeOf(c.A[1])
		if a.lo > a.hi || b.lo > b.hi {
			return 0
		}
		if a.hi < b.lo || b.hi < a.lo {
			return -1
		}
		if a.lo == a.hi && b.lo == b.hi && a.lo == b.lo {
			return 1
		}
	}
	return 0
}
