package main

// Stated bounds and assumptions per property (reported in the evidence).

func boundsFor(prop, tier string) map[string]interface{} {
	b := map[string]interface{}{
		"integers":          "full width (8/16/32/64-bit bit-vectors), unrestricted",
		"loop_unwinding":    "every loop entry counted per activation; bound 4096 (harnesses lower it); exceeding it on a feasible path is reported, never ignored",
		"steps_per_path":    3000000,
		"symbolic_sizes":    "lengths/capacities are concrete per path; a symbolic size is case-split over its feasible values (max 48) after an out-of-range feasibility query",
		"solver_timeout_ms": map[string]int{"quick": 20000, "thorough": 120000}[tier],
	}
	if tier == "thorough" {
		b["thorough_budget"] = "per harness variant 200000 paths / 4 minutes at the thorough bounds; a variant that exceeds it is retried at the intermediate bounds and otherwise explored completely at the quick bounds; every such reduction is listed in coverage.bounds_reduced"
	}
	if pb, ok := propBounds[prop]; ok {
		for k, v := range pb {
			b[k] = v
		}
	}
	return b
}

var propBounds = map[string]map[string]interface{}{}

var commonAssumptions = []string{
	"go/ssa (x/tools v0.29.0) lowering of /repo's current source is faithful",
	"symgo's implementation of Go semantics over SSA (validated on every run by replaying solver models natively and comparing assertions and observed bytes)",
	"gc/amd64 struct layout as reported by go/types.SizesFor",
	"z3 4.8.12 answers (sat models are re-checked by native replay; unsat is trusted)",
	"float32<->float64 conversions are exact bit-vector definitions (round to nearest even, NaNs quieted as on amd64); no other float arithmetic on symbolic values",
	"where code computes with a pointer's address as an integer (masks, shifts, packing) the address is 0xc000000000 + object id * 2^20 + offset: one arbitrary layout",
	"stubs: fmt.Errorf returns an opaque non-nil error; sync.Pool.Get returns the most recently Put item (LIFO, the single-goroutine behaviour of the runtime) else New(); sync.Mutex is a flag; map iteration order is a rotation of insertion order; reflect is modelled from go/types for statically declared types",
}

func assumptionsFor(prop string) []string {
	return append(append([]string{}, commonAssumptions...), propAssumptions[prop]...)
}

var propAssumptions = map[string][]string{}
