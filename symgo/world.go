package main

// Values and the flat-cell heap.
//
// Every heap object is a run of bytes; each byte belongs to a cell: a scalar
// cell (1,2,4,8 bytes holding a bit-vector term) or a pointer word (8 bytes
// holding a pointer-class value). Untouched bytes read as zero / nil. Typed
// loads and stores decompose Go types into cells using gc/amd64 layout, so
// unsafe casts between layouts mean what they mean at run time.

import (
	"fmt"
	"go/types"

	"golang.org/x/tools/go/ssa"
)

type Value interface{}

// Ptr is a pointer-class value. ID == 0 means nil (Off != 0: wild pointer).
type Ptr struct {
	ID  int32
	Off int64
	// optional symbolic element index: address = Off + Sym*Stride, 0 <= Sym < Cnt
	Sym    *Term
	Stride int64
	Cnt    int64
}

func (p Ptr) IsNil() bool { return p.ID == 0 && p.Off == 0 && p.Sym == nil }

// TypeTok is the run-time type descriptor word (an *rtype).
type TypeTok struct{ T types.Type }

// Closure is a func value.
type Closure struct {
	Fn  *ssa.Function
	Env []Value
	// Intrinsic bound builtin (e.g. method value of an intrinsic type)
	Native func(m *Machine, args []Value) Value
}

type SliceVal struct {
	P        Ptr
	Len, Cap int64
}

type StringVal struct {
	P   Ptr
	Len int64
}

type IfaceVal struct {
	T types.Type // nil: nil interface
	V Value
}

type StructVal []Value
type ArrayVal []Value
type TupleVal []Value

// ReflVal is an opaque reflect.Value.
type ReflVal struct {
	T types.Type
	V Value // the value itself (for pointers: Ptr)
}

const (
	slotZero uint8 = iota
	slotScalar
	slotPtr
	slotCont
	slotPoison // spare capacity behind an input buffer: any read is a read outside the input
)

type Slot struct {
	kind uint8
	size uint8 // start slots
	back uint8 // continuation: distance to start
	t    *Term
	p    Value // Ptr, TypeTok, *Closure
}

type Aux interface{ CloneAux() Aux }

type Obj struct {
	id    int32
	size  int64
	slots []Slot
	aux   map[int64]Aux
	desc  string
	ro    bool // immutable (string constants)
}

func (o *Obj) clone() *Obj {
	n := &Obj{id: o.id, size: o.size, desc: o.desc, ro: o.ro}
	n.slots = make([]Slot, len(o.slots))
	copy(n.slots, o.slots)
	if o.aux != nil {
		n.aux = make(map[int64]Aux, len(o.aux))
		for k, v := range o.aux {
			n.aux[k] = v.CloneAux()
		}
	}
	return n
}

// World is the heap of one path. Objects of the base world are shared and
// cloned on first write.
type World struct {
	objs    []*Obj
	owned   []bool
	strs    map[string]int32
	globals map[*ssa.Global]int32
	inited  map[*ssa.Package]bool
	AllocBytes int64
}

func NewWorld() *World {
	w := &World{strs: map[string]int32{}, globals: map[*ssa.Global]int32{}}
	w.objs = append(w.objs, nil) // id 0 = nil
	w.owned = append(w.owned, true)
	return w
}

func (w *World) Fork() *World {
	n := &World{strs: make(map[string]int32, len(w.strs)), globals: w.globals}
	n.objs = make([]*Obj, len(w.objs), len(w.objs)+64)
	copy(n.objs, w.objs)
	n.owned = make([]bool, len(w.objs), len(w.objs)+64)
	for k, v := range w.strs {
		n.strs[k] = v
	}
	return n
}

func (w *World) Alloc(size int64, desc string) *Obj {
	if size < 0 {
		panic("Alloc negative")
	}
	o := &Obj{id: int32(len(w.objs)), size: size, slots: make([]Slot, size), desc: desc}
	w.objs = append(w.objs, o)
	w.owned = append(w.owned, true)
	w.AllocBytes += size
	return o
}

func (w *World) R(id int32) *Obj { return w.objs[id] }

func (w *World) W(id int32) *Obj {
	if !w.owned[id] {
		w.objs[id] = w.objs[id].clone()
		w.owned[id] = true
	}
	return w.objs[id]
}

func (w *World) AuxR(p Ptr) Aux {
	o := w.R(p.ID)
	if o.aux == nil {
		return nil
	}
	return o.aux[p.Off]
}

func (w *World) SetAux(p Ptr, a Aux) {
	o := w.W(p.ID)
	if o.aux == nil {
		o.aux = map[int64]Aux{}
	}
	o.aux[p.Off] = a
}

// AuxW returns the aux for writing (object cloned on write already gives a
// private copy of aux values).
func (w *World) AuxW(p Ptr) Aux {
	o := w.W(p.ID)
	if o.aux == nil {
		return nil
	}
	return o.aux[p.Off]
}

// Fault is a run-time error of the program under test.
type Fault struct {
	Kind string // nil-deref, oob, type-confusion, ...
	Msg  string
}

func (f *Fault) Error() string { return f.Kind + ": " + f.Msg }

func fault(kind, format string, a ...interface{}) *Fault {
	return &Fault{Kind: kind, Msg: fmt.Sprintf(format, a...)}
}

// ---- raw cell access ----

func (m *Machine) checkRange(p Ptr, n int64, what string) *Obj {
	if p.ID == 0 {
		if p.Off == 0 {
			m.raise(fault("nil-deref", "%s through nil pointer", what))
		}
		m.raise(fault("wild-pointer", "%s through invalid pointer %#x", what, p.Off))
	}
	o := m.w.R(p.ID)
	if p.Off < 0 || p.Off+n > o.size {
		m.raise(fault("oob-memory", "%s of %d bytes at offset %d of object %q (size %d)", what, n, p.Off, o.desc, o.size))
	}
	return o
}

func (m *Machine) byteAt(o *Obj, off int64) *Term {
	s := &o.slots[off]
	switch s.kind {
	case slotPoison:
		m.raise(fault("read-outside-input", "read of byte %d of %q, beyond the length of the input slice", off, o.desc))
	case slotZero:
		return m.st.Const(8, 0)
	case slotScalar:
		if s.size == 1 {
			return s.t
		}
		return m.st.Extract(s.t, 0, 8)
	case slotCont:
		st := &o.slots[off-int64(s.back)]
		if st.kind == slotScalar {
			return m.st.Extract(st.t, 8*s.back, 8)
		}
		if isNilPV(st.p) {
			return m.st.Const(8, 0)
		}
		m.raise(fault("type-confusion", "reading bytes of a pointer word in %q", o.desc))
	case slotPtr:
		if isNilPV(s.p) {
			return m.st.Const(8, 0)
		}
		m.raise(fault("type-confusion", "reading bytes of a pointer word in %q", o.desc))
	}
	panic("unreachable")
}

func isNilPV(v Value) bool {
	if v == nil {
		return true
	}
	if p, ok := v.(Ptr); ok {
		return p.IsNil()
	}
	return false
}

func (m *Machine) readScalar(p Ptr, size int64) *Term {
	o := m.checkRange(p, size, "read")
	s := &o.slots[p.Off]
	if s.kind == slotScalar && int64(s.size) == size {
		return s.t
	}
	w := uint8(size * 8)
	allZero := true
	for i := int64(0); i < size; i++ {
		if o.slots[p.Off+i].kind == slotPoison {
			m.raise(fault("read-outside-input", "read of byte %d of %q, beyond the length of the input slice", p.Off+i, o.desc))
		}
		if o.slots[p.Off+i].kind != slotZero {
			allZero = false
			break
		}
	}
	if allZero {
		return m.st.Const(w, 0)
	}
	// general: assemble little-endian
	t := m.byteAt(o, p.Off)
	for i := int64(1); i < size; i++ {
		t = m.st.Concat(m.byteAt(o, p.Off+i), t)
	}
	return t
}

// splitAt makes sure a cell boundary exists at off (0 <= off <= size).
func (m *Machine) splitAt(o *Obj, off int64) {
	if off <= 0 || off >= o.size {
		return
	}
	s := &o.slots[off]
	if s.kind != slotCont {
		return
	}
	start := off - int64(s.back)
	st := o.slots[start]
	if st.kind == slotPtr {
		if isNilPV(st.p) {
			for i := int64(0); i < 8; i++ {
				o.slots[start+i] = Slot{}
			}
			return
		}
		m.raise(fault("type-confusion", "partial overwrite of a pointer word in %q", o.desc))
	}
	// split scalar into bytes
	for i := int64(0); i < int64(st.size); i++ {
		o.slots[start+i] = Slot{kind: slotScalar, size: 1, t: m.st.Extract(st.t, uint8(8*i), 8)}
	}
}

func (m *Machine) clearRange(o *Obj, off, n int64) {
	m.splitAt(o, off)
	m.splitAt(o, off+n)
	for i := int64(0); i < n; i++ {
		o.slots[off+i] = Slot{}
	}
}

func (m *Machine) wobj(p Ptr, n int64, what string) *Obj {
	o := m.checkRange(p, n, what)
	if o.ro {
		m.raise(fault("write-readonly", "%s into read-only object %q", what, o.desc))
	}
	return m.w.W(p.ID)
}

func (m *Machine) writeScalar(p Ptr, size int64, t *Term) {
	if int64(t.W) != size*8 {
		panic(fmt.Sprintf("writeScalar: width %d for size %d", t.W, size))
	}
	o := m.wobj(p, size, "write")
	m.clearRange(o, p.Off, size)
	if t.IsConst() && t.K == 0 {
		return
	}
	o.slots[p.Off] = Slot{kind: slotScalar, size: uint8(size), t: t}
	for i := int64(1); i < size; i++ {
		o.slots[p.Off+i] = Slot{kind: slotCont, back: uint8(i)}
	}
}

func (m *Machine) readWord(p Ptr) Value {
	o := m.checkRange(p, 8, "read")
	s := &o.slots[p.Off]
	if s.kind == slotPtr {
		return s.p
	}
	allZero := true
	for i := int64(0); i < 8; i++ {
		if o.slots[p.Off+i].kind != slotZero {
			allZero = false
		}
	}
	if allZero {
		return Ptr{}
	}
	// scalar bytes read as a pointer: only a constant zero is a valid (nil) pointer
	t := m.readScalar(p, 8)
	if t.IsConst() {
		if t.K == 0 {
			return Ptr{}
		}
		return Ptr{Off: int64(t.K)}
	}
	return t // uintptr-ish: integer term in a word
}

func (m *Machine) writeWord(p Ptr, v Value) {
	o := m.wobj(p, 8, "write")
	m.clearRange(o, p.Off, 8)
	if isNilPV(v) {
		return
	}
	o.slots[p.Off] = Slot{kind: slotPtr, size: 8, p: v}
	for i := int64(1); i < 8; i++ {
		o.slots[p.Off+i] = Slot{kind: slotCont, back: uint8(i)}
	}
}

// copyBytes copies n raw bytes (cells are split as needed). Overlap safe.
func (m *Machine) copyBytes(dst, src Ptr, n int64) {
	if n == 0 {
		return
	}
	so := m.checkRange(src, n, "copy-read")
	// snapshot source cells
	type piece struct {
		off  int64
		slot Slot
	}
	var ps []piece
	i := int64(0)
	for i < n {
		s := so.slots[src.Off+i]
		switch s.kind {
		case slotPoison:
			m.raise(fault("read-outside-input", "copy from byte %d of %q, beyond the length of the input slice", src.Off+i, so.desc))
		case slotZero:
			i++
		case slotScalar, slotPtr:
			if i+int64(s.size) <= n {
				ps = append(ps, piece{i, s})
				i += int64(s.size)
			} else {
				if s.kind == slotPtr && !isNilPV(s.p) {
					m.raise(fault("type-confusion", "partial copy of pointer word"))
				}
				if s.kind == slotScalar {
					for j := int64(0); i+j < n; j++ {
						ps = append(ps, piece{i + j, Slot{kind: slotScalar, size: 1, t: m.st.Extract(s.t, uint8(8*j), 8)}})
					}
				}
				i = n
			}
		case slotCont:
			st := so.slots[src.Off+i-int64(s.back)]
			if st.kind == slotPtr {
				if !isNilPV(st.p) {
					m.raise(fault("type-confusion", "partial copy of pointer word"))
				}
				i++
				continue
			}
			ps = append(ps, piece{i, Slot{kind: slotScalar, size: 1, t: m.st.Extract(st.t, 8*s.back, 8)}})
			i++
		}
	}
	do := m.wobj(dst, n, "copy-write")
	m.clearRange(do, dst.Off, n)
	for _, pc := range ps {
		if pc.slot.kind == slotScalar && pc.slot.t.IsConst() && pc.slot.t.K == 0 {
			continue
		}
		do.slots[dst.Off+pc.off] = pc.slot
		for j := int64(1); j < int64(pc.slot.size); j++ {
			do.slots[dst.Off+pc.off+j] = Slot{kind: slotCont, back: uint8(j)}
		}
	}
}

// ---- type layout ----

var sizes = types.SizesFor("gc", "amd64")

func sizeof(T types.Type) int64 { return sizes.Sizeof(T) }

// isDirectIface reports whether gc stores values of T directly in the
// interface data word.
func isDirectIface(T types.Type) bool {
	switch u := T.Underlying().(type) {
	case *types.Pointer, *types.Map, *types.Chan, *types.Signature:
		return true
	case *types.Basic:
		return u.Kind() == types.UnsafePointer
	case *types.Struct:
		return u.NumFields() == 1 && isDirectIface(u.Field(0).Type())
	case *types.Array:
		return u.Len() == 1 && isDirectIface(u.Elem())
	}
	return false
}

func fieldOffsets(st *types.Struct) []int64 {
	fs := make([]*types.Var, st.NumFields())
	for i := range fs {
		fs[i] = st.Field(i)
	}
	return sizes.Offsetsof(fs)
}

func (m *Machine) symPtrLoad(T types.Type, p Ptr) Value {
	// ite-chain over the possible element indexes for scalars
	b, ok := T.Underlying().(*types.Basic)
	if !ok || b.Info()&(types.IsInteger|types.IsBoolean|types.IsFloat) == 0 {
		// non-scalar elements (e.g. a lookup table of structs): most entries
		// are usually identical (zero); split on the entries that differ from
		// the most common value and treat the rest as one case
		if p.Cnt > 8192 {
			m.unsupported("symbolic index over %d elements", p.Cnt)
		}
		vals := make([]Value, p.Cnt)
		keys := make([]string, p.Cnt)
		count := map[string]int{}
		for i := int64(0); i < p.Cnt; i++ {
			vals[i] = m.Load(T, Ptr{ID: p.ID, Off: p.Off + i*p.Stride})
			keys[i] = valueKey(vals[i])
			count[keys[i]]++
		}
		def, best := "", -1
		for i := int64(0); i < p.Cnt; i++ {
			if c := count[keys[i]]; c > best {
				def, best = keys[i], c
			}
		}
		if int(p.Cnt)-best > 64 {
			// too many distinct entries to split on: sample the index at the
			// table's edges and the powers of two (under-approximation,
			// reported as inconclusive unless a violation is found)
			cands := []uint64{0, 1, uint64(p.Cnt) - 1, uint64(p.Cnt) / 2, uint64(p.Cnt)/2 - 1}
			for b := uint64(2); b < uint64(p.Cnt); b *= 2 {
				cands = append(cands, b, b-1)
			}
			var in []uint64
			for _, c := range cands {
				if c < uint64(p.Cnt) {
					in = append(in, c)
				}
			}
			i := m.sampleBits(p.Sym, in, "index into a table of distinct non-scalar entries")
			if i.K >= uint64(p.Cnt) {
				m.unsupported("sampled table index out of range")
			}
			return vals[i.K]
		}
		var defVal Value
		for i := int64(0); i < p.Cnt; i++ {
			if keys[i] == def {
				defVal = vals[i]
				continue
			}
			if m.branch(m.st.Eq(p.Sym, m.st.Const(p.Sym.W, uint64(i)))) {
				return vals[i]
			}
		}
		return defVal
	}
	if p.Cnt > 512 {
		m.unsupported("symbolic index over %d scalar elements", p.Cnt)
	}
	var res *Term
	for i := p.Cnt - 1; i >= 0; i-- {
		v := m.Load(T, Ptr{ID: p.ID, Off: p.Off + i*p.Stride}).(*Term)
		if res == nil {
			res = v
		} else {
			res = m.st.Ite(m.st.Eq(p.Sym, m.st.Const(p.Sym.W, uint64(i))), v, res)
		}
	}
	return res
}

// Load reads a value of type T at p.
func (m *Machine) Load(T types.Type, p Ptr) Value {
	if p.Sym != nil {
		return m.symPtrLoad(T, p)
	}
	switch u := T.Underlying().(type) {
	case *types.Basic:
		switch {
		case u.Kind() == types.Bool:
			t := m.readScalar(p, 1)
			return m.st.Ne(t, m.st.Const(8, 0))
		case u.Kind() == types.String:
			d := m.readWord(p)
			l := m.readScalar(Ptr{ID: p.ID, Off: p.Off + 8}, 8)
			return StringVal{P: m.asPtr(d, "string data"), Len: m.constInt(l, "string length")}
		case u.Kind() == types.UnsafePointer:
			return m.readWord(p)
		case u.Kind() == types.Uintptr:
			o := m.checkRange(p, 8, "read")
			if o.slots[p.Off].kind == slotPtr {
				return o.slots[p.Off].p
			}
			return m.readScalar(p, 8)
		case u.Info()&(types.IsInteger|types.IsFloat) != 0:
			return m.readScalar(p, sizeof(u))
		case u.Kind() == types.Complex64:
			return m.readScalar(p, 8)
		case u.Kind() == types.Complex128:
			return ArrayVal{m.readScalar(p, 8), m.readScalar(Ptr{ID: p.ID, Off: p.Off + 8}, 8)}
		}
	case *types.Pointer, *types.Map, *types.Chan, *types.Signature:
		return m.readWord(p)
	case *types.Slice:
		d := m.readWord(p)
		l := m.readScalar(Ptr{ID: p.ID, Off: p.Off + 8}, 8)
		c := m.readScalar(Ptr{ID: p.ID, Off: p.Off + 16}, 8)
		return SliceVal{P: m.asPtr(d, "slice data"), Len: m.constInt(l, "slice len"), Cap: m.constInt(c, "slice cap")}
	case *types.Interface:
		tw := m.readWord(p)
		dw := m.readWord(Ptr{ID: p.ID, Off: p.Off + 8})
		if isNilPV(tw) {
			return IfaceVal{}
		}
		tt, ok := tw.(TypeTok)
		if !ok {
			m.raise(fault("type-confusion", "interface type word is not a type descriptor"))
		}
		if isDirectIface(tt.T) {
			return IfaceVal{T: tt.T, V: m.wrapDirect(tt.T, dw)}
		}
		bp := m.asPtr(dw, "interface data")
		return IfaceVal{T: tt.T, V: m.Load(tt.T, bp)}
	case *types.Struct:
		offs := fieldOffsets(u)
		sv := make(StructVal, u.NumFields())
		for i := range sv {
			sv[i] = m.Load(u.Field(i).Type(), Ptr{ID: p.ID, Off: p.Off + offs[i]})
		}
		return sv
	case *types.Array:
		n := u.Len()
		es := sizeof(u.Elem())
		av := make(ArrayVal, n)
		for i := int64(0); i < n; i++ {
			av[i] = m.Load(u.Elem(), Ptr{ID: p.ID, Off: p.Off + i*es})
		}
		return av
	}
	m.unsupported("Load of type %s", T)
	return nil
}

// wrapDirect turns an interface data word into a value of direct type T.
func (m *Machine) wrapDirect(T types.Type, dw Value) Value {
	switch u := T.Underlying().(type) {
	case *types.Struct:
		return StructVal{m.wrapDirect(u.Field(0).Type(), dw)}
	case *types.Array:
		return ArrayVal{m.wrapDirect(u.Elem(), dw)}
	}
	if dw == nil {
		return Ptr{}
	}
	return dw
}

func unwrapDirect(v Value) Value {
	for {
		switch x := v.(type) {
		case StructVal:
			v = x[0]
		case ArrayVal:
			v = x[0]
		default:
			return v
		}
	}
}

func (m *Machine) asPtr(v Value, what string) Ptr {
	switch x := v.(type) {
	case nil:
		return Ptr{}
	case Ptr:
		return x
	case *Term:
		if x.IsConst() {
			return Ptr{Off: int64(x.K)}
		}
	}
	m.raise(fault("type-confusion", "%s word holds %T, not a data pointer", what, v))
	return Ptr{}
}

func (m *Machine) constInt(t *Term, what string) int64 {
	if t.IsConst() {
		return t.SVal()
	}
	// a symbolic length word: case-split on its value
	return m.concretize(t, -1<<40, 1<<40, what)
}

// Store writes v of type T at p.
func (m *Machine) Store(T types.Type, p Ptr, v Value) {
	if p.Sym != nil {
		idx := m.concretize(p.Sym, 0, p.Cnt-1, "store index")
		p = Ptr{ID: p.ID, Off: p.Off + idx*p.Stride}
	}
	switch u := T.Underlying().(type) {
	case *types.Basic:
		switch {
		case u.Kind() == types.Bool:
			b := v.(*Term)
			m.writeScalar(p, 1, m.st.Ite(b, m.st.Const(8, 1), m.st.Const(8, 0)))
			return
		case u.Kind() == types.String:
			s := v.(StringVal)
			m.writeWord(p, s.P)
			m.writeScalar(Ptr{ID: p.ID, Off: p.Off + 8}, 8, m.st.Const(64, uint64(s.Len)))
			return
		case u.Kind() == types.UnsafePointer:
			m.writeWord(p, v)
			return
		case u.Kind() == types.Uintptr:
			if t, ok := v.(*Term); ok {
				m.writeScalar(p, 8, t)
			} else {
				m.writeWord(p, v)
			}
			return
		case u.Info()&(types.IsInteger|types.IsFloat) != 0:
			m.writeScalar(p, sizeof(u), v.(*Term))
			return
		case u.Kind() == types.Complex64:
			m.writeScalar(p, 8, v.(*Term))
			return
		case u.Kind() == types.Complex128:
			av := v.(ArrayVal)
			m.writeScalar(p, 8, av[0].(*Term))
			m.writeScalar(Ptr{ID: p.ID, Off: p.Off + 8}, 8, av[1].(*Term))
			return
		}
	case *types.Pointer, *types.Map, *types.Chan, *types.Signature:
		m.writeWord(p, v)
		return
	case *types.Slice:
		s := v.(SliceVal)
		m.writeWord(p, s.P)
		m.writeScalar(Ptr{ID: p.ID, Off: p.Off + 8}, 8, m.st.Const(64, uint64(s.Len)))
		m.writeScalar(Ptr{ID: p.ID, Off: p.Off + 16}, 8, m.st.Const(64, uint64(s.Cap)))
		return
	case *types.Interface:
		iv := v.(IfaceVal)
		if iv.T == nil {
			m.writeWord(p, nil)
			m.writeWord(Ptr{ID: p.ID, Off: p.Off + 8}, nil)
			return
		}
		m.writeWord(p, TypeTok{iv.T})
		if isDirectIface(iv.T) {
			m.writeWord(Ptr{ID: p.ID, Off: p.Off + 8}, unwrapDirect(iv.V))
			return
		}
		box := m.w.Alloc(sizeof(iv.T), "iface-box "+iv.T.String())
		bp := Ptr{ID: box.id}
		m.Store(iv.T, bp, iv.V)
		m.writeWord(Ptr{ID: p.ID, Off: p.Off + 8}, bp)
		return
	case *types.Struct:
		offs := fieldOffsets(u)
		sv := v.(StructVal)
		for i := range sv {
			m.Store(u.Field(i).Type(), Ptr{ID: p.ID, Off: p.Off + offs[i]}, sv[i])
		}
		return
	case *types.Array:
		av := v.(ArrayVal)
		es := sizeof(u.Elem())
		for i := range av {
			m.Store(u.Elem(), Ptr{ID: p.ID, Off: p.Off + int64(i)*es}, av[i])
		}
		return
	}
	m.unsupported("Store of type %s", T)
}

// Zero value of a type as a register value.
func (m *Machine) Zero(T types.Type) Value {
	switch u := T.Underlying().(type) {
	case *types.Basic:
		switch {
		case u.Kind() == types.Bool, u.Kind() == types.UntypedBool:
			return m.st.False
		case u.Kind() == types.String, u.Kind() == types.UntypedString:
			return StringVal{}
		case u.Kind() == types.UnsafePointer, u.Kind() == types.UntypedNil:
			return Ptr{}
		case u.Info()&(types.IsInteger|types.IsFloat) != 0:
			return m.st.Const(uint8(sizeof(u)*8), 0)
		case u.Kind() == types.Complex64:
			return m.st.Const(64, 0)
		case u.Kind() == types.Complex128:
			return ArrayVal{m.st.Const(64, 0), m.st.Const(64, 0)}
		}
	case *types.Pointer, *types.Map, *types.Chan, *types.Signature:
		return Ptr{}
	case *types.Slice:
		return SliceVal{}
	case *types.Interface:
		return IfaceVal{}
	case *types.Struct:
		sv := make(StructVal, u.NumFields())
		for i := range sv {
			sv[i] = m.Zero(u.Field(i).Type())
		}
		return sv
	case *types.Array:
		av := make(ArrayVal, u.Len())
		for i := range av {
			av[i] = m.Zero(u.Elem())
		}
		return av
	case *types.Tuple:
		tv := make(TupleVal, u.Len())
		for i := range tv {
			tv[i] = m.Zero(u.At(i).Type())
		}
		return tv
	}
	m.unsupported("Zero of type %s", T)
	return nil
}

// ---- strings and byte slices ----

func (m *Machine) constString(s string) StringVal {
	if len(s) == 0 {
		return StringVal{}
	}
	if id, ok := m.w.strs[s]; ok {
		return StringVal{P: Ptr{ID: id}, Len: int64(len(s))}
	}
	o := m.w.Alloc(int64(len(s)), "string-const")
	for i := 0; i < len(s); i++ {
		if s[i] != 0 {
			o.slots[i] = Slot{kind: slotScalar, size: 1, t: m.st.Const(8, uint64(s[i]))}
		}
	}
	o.ro = true
	m.w.strs[s] = o.id
	return StringVal{P: Ptr{ID: o.id}, Len: int64(len(s))}
}

// bytesOf returns the byte terms of a string/slice region.
func (m *Machine) bytesOf(p Ptr, n int64) []*Term {
	if n == 0 {
		return nil
	}
	o := m.checkRange(p, n, "read")
	out := make([]*Term, n)
	for i := int64(0); i < n; i++ {
		out[i] = m.byteAt(o, p.Off+i)
	}
	return out
}

// goString returns the concrete content of a string value, or ok=false if a
// byte is symbolic.
func (m *Machine) goString(s StringVal) (string, bool) {
	bs := m.bytesOf(s.P, s.Len)
	b := make([]byte, len(bs))
	for i, t := range bs {
		if !t.IsConst() {
			return "", false
		}
		b[i] = byte(t.K)
	}
	return string(b), true
}

func (m *Machine) mustGoString(v Value, what string) string {
	s, ok := m.goString(v.(StringVal))
	if !ok {
		m.unsupported("symbolic string where a concrete one is needed: %s", what)
	}
	return s
}

func (m *Machine) newBytes(ts []*Term, desc string) Ptr {
	o := m.w.Alloc(int64(len(ts)), desc)
	for i, t := range ts {
		if !(t.IsConst() && t.K == 0) {
			o.slots[i] = Slot{kind: slotScalar, size: 1, t: t}
		}
	}
	return Ptr{ID: o.id}
}

func (m *Machine) stringEq(a, b StringVal) *Term {
	if a.Len != b.Len {
		return m.st.False
	}
	if a.Len == 0 || (a.P.ID == b.P.ID && a.P.Off == b.P.Off) {
		return m.st.True
	}
	x := m.bytesOf(a.P, a.Len)
	y := m.bytesOf(b.P, b.Len)
	r := m.st.True
	for i := range x {
		r = m.st.BAnd(r, m.st.Eq(x[i], y[i]))
	}
	return r
}


// valueKey is a structural fingerprint of a value (used to group identical
// table entries).
func valueKey(v Value) string {
	switch x := v.(type) {
	case nil:
		return "nil"
	case *Term:
		if x.IsConst() {
			return fmt.Sprintf("c%d:%d", x.W, x.K)
		}
		return fmt.Sprintf("t%d", x.id)
	case Ptr:
		return fmt.Sprintf("p%d+%d", x.ID, x.Off)
	case TypeTok:
		return "T" + x.T.String()
	case *Closure:
		return fmt.Sprintf("f%p", x)
	case StringVal:
		return fmt.Sprintf("s%d+%d:%d", x.P.ID, x.P.Off, x.Len)
	case SliceVal:
		return fmt.Sprintf("l%d+%d:%d:%d", x.P.ID, x.P.Off, x.Len, x.Cap)
	case IfaceVal:
		if x.T == nil {
			return "i-nil"
		}
		return "i(" + x.T.String() + ")" + valueKey(x.V)
	case StructVal:
		s := "{"
		for _, f := range x {
			s += valueKey(f) + ","
		}
		return s + "}"
	case ArrayVal:
		s := "["
		for _, f := range x {
			s += valueKey(f) + ","
		}
		return s + "]"
	}
	return fmt.Sprintf("?%T", v)
}
