package main

// The SSA interpreter. Scalars are terms, everything structural is concrete
// on a path. A path ends by panicking with *PathEnd, recovered in RunPath.

import (
	"fmt"
	"go/constant"
	"go/token"
	"go/types"
	"math"
	"strings"

	"golang.org/x/tools/go/ssa"
)

type PathEnd struct {
	Kind string // ok | fault | unwind | unsupported | infeasible | inconclusive | steps
	Sub  string // fault kind
	Msg  string
	Site string // function#pos where it happened
}

func (e *PathEnd) String() string {
	return fmt.Sprintf("%s/%s at %s: %s", e.Kind, e.Sub, e.Site, e.Msg)
}

type deferred struct {
	fn   Value
	args []Value
}

type Frame struct {
	fn     *ssa.Function
	env    map[ssa.Value]Value
	defers []deferred
	visits map[*ssa.BasicBlock]int
	cur    ssa.Instruction
	parent *Frame
}

type Machine struct {
	P   *Program
	w   *World
	st  *Store
	sol *Solver

	// decisions
	prefix []int64
	pos    int
	trace  []int64
	alts   []workItem // alternatives discovered on this path

	pc        []*Term
	pcSet     map[*Term]bool
	facts     map[*Term]urange
	rangeMemo map[*Term]urange
	rangeDecided int
	asserted  int
	lastModel Model

	frame     *Frame
	depth     int
	steps     int64
	stepLimit int64
	loopBound int
	allocBudget int64
	lenient   bool // during package initialisation
	initTop   *ssa.Function

	nondets   []NondetRec
	nameCount map[string]int
	events    []Event // asserts / observes / covers in order
	viols     []*Violation
	funcsSeen map[*ssa.Function]bool
	unknowns  int
	queriesFeas, queriesAssert int
	implicitChecks int // run-time checks (bounds, nil, size, division) whose operand was symbolic
	harness   *Harness
	mapOrderFork bool
	inconclusive []string
	nSampled     int // sampled (under-approximated) values on this path
}

type NondetRec struct {
	Name string
	Kind string // u8,u16,u32,u64,bool,choice
	W    uint8
	Var  *Term // nil for choice
	Val  int64 // for choice
}

type Event struct {
	Kind  string // assert | observe | cover
	Label string
	T     []*Term // observed terms
	OK    *Term   // assert condition
}

type Violation struct {
	Label string
	Kind  string // assert | fault | unwind | alloc
	Msg   string
	Site  string
	Model Model
	Trace []int64
	Nondets []NondetRec
	Events []Event
	Budget int64
	LoopBound int
}

func (m *Machine) site() string {
	fr := m.frame
	for fr != nil {
		if fr.cur != nil {
			// report the innermost frame inside the code under test or harness
			pos := m.P.prog.Fset.Position(fr.cur.Pos())
			fn := fr.fn.String()
			if pos.IsValid() {
				return fmt.Sprintf("%s (%s:%d)", fn, shortFile(pos.Filename), pos.Line)
			}
			return fn
		}
		fr = fr.parent
	}
	return "?"
}

// siteFn returns the innermost function of the module under test on the stack.
func (m *Machine) siteFn() string {
	for fr := m.frame; fr != nil; fr = fr.parent {
		if fr.fn.Pkg != nil {
			p := fr.fn.Pkg.Pkg.Path()
			if strings.HasPrefix(p, "github.com/philpearl/plenc") {
				return fr.fn.String()
			}
		}
	}
	if m.frame != nil {
		return m.frame.fn.String()
	}
	return "?"
}

func shortFile(f string) string {
	if i := strings.LastIndex(f, "/"); i >= 0 {
		if j := strings.LastIndex(f[:i], "/"); j >= 0 {
			return f[j+1:]
		}
	}
	return f
}

func (m *Machine) raise(f *Fault) {
	panic(&PathEnd{Kind: "fault", Sub: f.Kind, Msg: f.Msg, Site: m.site()})
}

func (m *Machine) unsupported(format string, a ...interface{}) {
	panic(&PathEnd{Kind: "unsupported", Msg: fmt.Sprintf(format, a...), Site: m.site()})
}

func (m *Machine) end(kind, format string, a ...interface{}) {
	panic(&PathEnd{Kind: kind, Msg: fmt.Sprintf(format, a...), Site: m.site()})
}

// ---------- operands ----------

func (m *Machine) constValue(c *ssa.Const) Value {
	T := c.Type()
	if c.Value == nil {
		return m.Zero(T)
	}
	switch u := T.Underlying().(type) {
	case *types.Basic:
		switch {
		case u.Info()&types.IsBoolean != 0:
			return m.st.Bool(constant.BoolVal(c.Value))
		case u.Info()&types.IsString != 0:
			return m.constString(constant.StringVal(c.Value))
		case u.Info()&types.IsInteger != 0:
			w := uint8(sizeof(u) * 8)
			if u.Kind() == types.UntypedInt || u.Kind() == types.UntypedRune {
				w = 64
			}
			v := constant.ToInt(c.Value)
			if i, ok := constant.Int64Val(v); ok {
				return m.st.Const(w, uint64(i))
			}
			if uu, ok := constant.Uint64Val(v); ok {
				return m.st.Const(w, uu)
			}
			m.unsupported("integer constant out of range")
		case u.Info()&types.IsFloat != 0:
			f, _ := constant.Float64Val(c.Value)
			if u.Kind() == types.Float32 {
				return m.st.Const(32, uint64(math.Float32bits(float32(f))))
			}
			return m.st.Const(64, math.Float64bits(f))
		case u.Kind() == types.UnsafePointer:
			return Ptr{}
		}
	}
	m.unsupported("constant of type %s", T)
	return nil
}

func (m *Machine) get(fr *Frame, v ssa.Value) Value {
	switch x := v.(type) {
	case *ssa.Const:
		return m.constValue(x)
	case *ssa.Global:
		return m.globalPtr(x)
	case *ssa.Function:
		return &Closure{Fn: x}
	case *ssa.Builtin:
		return x
	}
	r, ok := fr.env[v]
	if !ok {
		panic(fmt.Sprintf("no value for %s (%T) in %s", v.Name(), v, fr.fn))
	}
	return r
}

func (m *Machine) globalPtr(g *ssa.Global) Value {
	id, ok := m.w.globals[g]
	if !ok {
		m.unsupported("global %s has no storage (package not loaded)", g)
	}
	if g.Pkg != nil {
		m.P.ensureInit(m, g.Pkg)
	}
	return Ptr{ID: id}
}

// ---------- calls ----------

func (m *Machine) callValue(fv Value, args []Value) Value {
	switch f := fv.(type) {
	case *Closure:
		if f.Native != nil {
			return f.Native(m, args)
		}
		return m.callFunction(f.Fn, args, f.Env)
	case Ptr:
		if f.IsNil() {
			m.raise(fault("nil-deref", "call of nil func"))
		}
	case nil:
		m.raise(fault("nil-deref", "call of nil func"))
	}
	m.unsupported("call of %T", fv)
	return nil
}

func (m *Machine) callFunction(fn *ssa.Function, args []Value, env []Value) Value {
	if fn.Synthetic == "package initializer" {
		// imported packages are initialised lazily, on first access to one of
		// their globals; only the initialiser requested by runInit is executed
		if fn != m.initTop {
			return nil
		}
		m.initTop = nil
	}
	if intr := m.P.intrinsicFor(fn); intr != nil {
		return intr(m, fn, args)
	}
	if fn.Blocks == nil {
		if m.lenient {
			// package initialisation: environment probes (clock, GOROOT, ...)
			// yield zero values; nothing the properties depend on reads them
			res := fn.Signature.Results()
			switch res.Len() {
			case 0:
				return nil
			case 1:
				return m.Zero(res.At(0).Type())
			}
			return m.Zero(res)
		}
		m.unsupported("external function %s has no body and no intrinsic", fn)
	}
	if m.depth > 200 {
		m.end("unwind", "call depth exceeded in %s", fn)
	}
	if m.funcsSeen != nil {
		m.funcsSeen[fn] = true
	}
	fr := &Frame{fn: fn, env: make(map[ssa.Value]Value, 32), parent: m.frame}
	for i, p := range fn.Params {
		fr.env[p] = args[i]
	}
	for i, fv := range fn.FreeVars {
		fr.env[fv] = env[i]
	}
	m.frame = fr
	m.depth++
	ret := m.run(fr)
	m.depth--
	m.frame = fr.parent
	return ret
}

func (m *Machine) run(fr *Frame) Value {
	block := fr.fn.Blocks[0]
	var prev *ssa.BasicBlock
	for {
		if prev != nil && len(block.Preds) > 1 {
			// unwinding assertion: count consecutive back-edge entries of a loop
			// header; entering the loop afresh (forward edge) resets the count
			if fr.visits == nil {
				fr.visits = map[*ssa.BasicBlock]int{}
			}
			if block.Dominates(prev) {
				fr.visits[block]++
				if fr.visits[block] > m.loopBound {
					m.end("unwind", "loop at block %d of %s iterated more than %d times", block.Index, fr.fn, m.loopBound)
				}
			} else {
				fr.visits[block] = 0
			}
		}
		// phis first (simultaneous)
		nphi := 0
		for _, in := range block.Instrs {
			if _, ok := in.(*ssa.Phi); ok {
				nphi++
			} else {
				break
			}
		}
		if nphi > 0 {
			idx := -1
			for i, p := range block.Preds {
				if p == prev {
					idx = i
					break
				}
			}
			vals := make([]Value, nphi)
			for i := 0; i < nphi; i++ {
				vals[i] = m.get(fr, block.Instrs[i].(*ssa.Phi).Edges[idx])
			}
			for i := 0; i < nphi; i++ {
				fr.env[block.Instrs[i].(*ssa.Phi)] = vals[i]
			}
		}
		var next *ssa.BasicBlock
		for _, in := range block.Instrs[nphi:] {
			m.steps++
			if m.steps > m.stepLimit {
				fr.cur = in
				m.end("steps", "step limit %d exceeded", m.stepLimit)
			}
			fr.cur = in
			switch in := in.(type) {
			case *ssa.DebugRef:
			case *ssa.Alloc:
				T := in.Type().Underlying().(*types.Pointer).Elem()
				o := m.w.Alloc(sizeof(T), "alloc "+in.Comment+" in "+fr.fn.Name())
				fr.env[in] = Ptr{ID: o.id}
			case *ssa.UnOp:
				fr.env[in] = m.unop(fr, in)
			case *ssa.BinOp:
				fr.env[in] = m.binop(in.Op, in.X.Type(), m.get(fr, in.X), m.get(fr, in.Y), in.Y.Type())
			case *ssa.Store:
				T := in.Addr.Type().Underlying().(*types.Pointer).Elem()
				m.Store(T, m.ptrOperand(m.get(fr, in.Addr)), m.get(fr, in.Val))
			case *ssa.FieldAddr:
				p := m.ptrOperand(m.get(fr, in.X))
				if p.ID == 0 {
					m.raise(fault("nil-deref", "field address of nil pointer"))
				}
				st := in.X.Type().Underlying().(*types.Pointer).Elem().Underlying().(*types.Struct)
				p.Off += fieldOffsets(st)[in.Field]
				fr.env[in] = p
			case *ssa.Field:
				fr.env[in] = m.get(fr, in.X).(StructVal)[in.Field]
			case *ssa.IndexAddr:
				fr.env[in] = m.indexAddr(fr, in)
			case *ssa.Index:
				fr.env[in] = m.index(fr, in)
			case *ssa.Lookup:
				fr.env[in] = m.lookup(fr, in)
			case *ssa.Slice:
				fr.env[in] = m.slice(fr, in)
			case *ssa.Call:
				fr.env[in] = m.doCall(fr, in.Common())
			case *ssa.Defer:
				fn, args := m.prepareCall(fr, in.Common())
				fr.defers = append(fr.defers, deferred{fn, args})
			case *ssa.RunDefers:
				for len(fr.defers) > 0 {
					d := fr.defers[len(fr.defers)-1]
					fr.defers = fr.defers[:len(fr.defers)-1]
					m.invokePrepared(d.fn, d.args)
				}
			case *ssa.Go:
				m.unsupported("go statement")
			case *ssa.Extract:
				fr.env[in] = m.get(fr, in.Tuple).(TupleVal)[in.Index]
			case *ssa.ChangeType:
				fr.env[in] = m.get(fr, in.X)
			case *ssa.ChangeInterface:
				fr.env[in] = m.get(fr, in.X)
			case *ssa.Convert:
				fr.env[in] = m.convert(in.X.Type(), in.Type(), m.get(fr, in.X))
			case *ssa.MakeInterface:
				fr.env[in] = IfaceVal{T: in.X.Type(), V: m.get(fr, in.X)}
			case *ssa.MakeClosure:
				env := make([]Value, len(in.Bindings))
				for i, b := range in.Bindings {
					env[i] = m.get(fr, b)
				}
				fr.env[in] = &Closure{Fn: in.Fn.(*ssa.Function), Env: env}
			case *ssa.MakeSlice:
				fr.env[in] = m.makeSlice(fr, in)
			case *ssa.MakeMap:
				mt := in.Type().Underlying().(*types.Map)
				if in.Reserve != nil {
					if t, ok := m.get(fr, in.Reserve).(*Term); ok {
						m.checkAllocCount(t, 48, "make(map) size hint", false)
					}
				}
				fr.env[in] = m.newMap(mt)
			case *ssa.MapUpdate:
				mt := in.Map.Type().Underlying().(*types.Map)
				m.mapUpdate(mt, m.get(fr, in.Map), m.get(fr, in.Key), m.get(fr, in.Value))
			case *ssa.Range:
				fr.env[in] = m.rangeStart(in.X.Type(), m.get(fr, in.X))
			case *ssa.Next:
				fr.env[in] = m.rangeNext(in, m.get(fr, in.Iter))
			case *ssa.TypeAssert:
				fr.env[in] = m.typeAssert(fr, in)
			case *ssa.SliceToArrayPointer:
				s := m.get(fr, in.X).(SliceVal)
				n := in.Type().Underlying().(*types.Pointer).Elem().Underlying().(*types.Array).Len()
				if s.Len < n {
					m.raise(fault("slice-to-array", "slice too short"))
				}
				fr.env[in] = s.P
			case *ssa.Panic:
				v := m.get(fr, in.X)
				msg := "panic"
				if iv, ok := v.(IfaceVal); ok && iv.T != nil {
					if sv, ok := iv.V.(StringVal); ok {
						if s, ok := m.goString(sv); ok {
							msg = s
						}
					} else {
						msg = "panic(" + iv.T.String() + ")"
					}
				}
				m.raise(fault("panic", "%s", msg))
			case *ssa.If:
				c := m.get(fr, in.Cond).(*Term)
				if m.branch(c) {
					next = block.Succs[0]
				} else {
					next = block.Succs[1]
				}
			case *ssa.Jump:
				next = block.Succs[0]
			case *ssa.Return:
				switch len(in.Results) {
				case 0:
					return nil
				case 1:
					return m.get(fr, in.Results[0])
				default:
					tv := make(TupleVal, len(in.Results))
					for i, r := range in.Results {
						tv[i] = m.get(fr, r)
					}
					return tv
				}
			default:
				m.unsupported("instruction %T", in)
			}
		}
		if next == nil {
			m.unsupported("block without terminator in %s", fr.fn)
		}
		prev, block = block, next
	}
}

func (m *Machine) ptrOperand(v Value) Ptr {
	switch p := v.(type) {
	case Ptr:
		return p
	case nil:
		return Ptr{}
	case *Term:
		if p.IsConst() {
			return Ptr{Off: int64(p.K)}
		}
	}
	m.raise(fault("type-confusion", "using %T as a pointer", v))
	return Ptr{}
}

func (m *Machine) prepareCall(fr *Frame, c *ssa.CallCommon) (Value, []Value) {
	if c.IsInvoke() {
		recv := m.get(fr, c.Value).(IfaceVal)
		if recv.T == nil {
			m.raise(fault("nil-deref", "method %s called on nil interface", c.Method.Name()))
		}
		args := make([]Value, 0, len(c.Args)+1)
		args = append(args, recv.V)
		for _, a := range c.Args {
			args = append(args, m.get(fr, a))
		}
		if nat := m.P.invokeIntrinsic(m, recv.T, c.Method.Name()); nat != nil {
			return &Closure{Native: nat}, args
		}
		fn := m.P.lookupMethod(recv.T, c.Method)
		if fn == nil {
			m.unsupported("no method %s on %s", c.Method.Name(), recv.T)
		}
		return &Closure{Fn: fn}, args
	}
	args := make([]Value, len(c.Args))
	for i, a := range c.Args {
		args[i] = m.get(fr, a)
	}
	return m.get(fr, c.Value), args
}

func (m *Machine) invokePrepared(fn Value, args []Value) Value {
	if b, ok := fn.(*ssa.Builtin); ok {
		return m.builtin(b, args)
	}
	return m.callValue(fn, args)
}

func (m *Machine) doCall(fr *Frame, c *ssa.CallCommon) Value {
	if b, ok := c.Value.(*ssa.Builtin); ok {
		args := make([]Value, len(c.Args))
		for i, a := range c.Args {
			args[i] = m.get(fr, a)
		}
		return m.builtinTyped(b, c, args)
	}
	fn, args := m.prepareCall(fr, c)
	return m.callValue(fn, args)
}

// ---------- unary ----------

func (m *Machine) unop(fr *Frame, in *ssa.UnOp) Value {
	x := m.get(fr, in.X)
	switch in.Op {
	case token.MUL:
		return m.Load(in.Type(), m.ptrOperand(x))
	case token.NOT:
		return m.st.BNot(x.(*Term))
	case token.SUB:
		t := x.(*Term)
		if isFloat(in.Type()) {
			return m.st.BV(OpXor, t, m.st.Const(t.W, uint64(1)<<(t.W-1)))
		}
		return m.st.Neg(t)
	case token.XOR:
		return m.st.Not(x.(*Term))
	}
	m.unsupported("unary %s", in.Op)
	return nil
}

func isFloat(T types.Type) bool {
	b, ok := T.Underlying().(*types.Basic)
	return ok && b.Info()&types.IsFloat != 0
}

func isSigned(T types.Type) bool {
	b, ok := T.Underlying().(*types.Basic)
	return ok && b.Info()&types.IsInteger != 0 && b.Info()&types.IsUnsigned == 0
}

func isString(T types.Type) bool {
	b, ok := T.Underlying().(*types.Basic)
	return ok && b.Info()&types.IsString != 0
}

// ---------- indexing / slicing ----------

func (m *Machine) boundsCheck(idx *Term, n int64, what string) {
	// 0 <= idx < n, idx is 64-bit signed
	ok := m.st.Ult(idx, m.st.Const(idx.W, uint64(n)))
	if !ok.IsConst() {
		m.implicitChecks++
	}
	if !m.branch(ok) {
		m.raise(fault("index-out-of-range", "%s: index out of range [..] with length %d", what, n))
	}
}

func (m *Machine) to64(t *Term, T types.Type) *Term {
	if t.W == 64 {
		return t
	}
	if isSigned(T) {
		return m.st.SExt(t, 64)
	}
	return m.st.ZExt(t, 64)
}

func (m *Machine) indexAddr(fr *Frame, in *ssa.IndexAddr) Value {
	x := m.get(fr, in.X)
	idx := m.to64(m.get(fr, in.Index).(*Term), in.Index.Type())
	var base Ptr
	var n int64
	var elem types.Type
	switch u := in.X.Type().Underlying().(type) {
	case *types.Pointer:
		arr := u.Elem().Underlying().(*types.Array)
		base = m.ptrOperand(x)
		if base.ID == 0 {
			m.raise(fault("nil-deref", "index of nil array pointer"))
		}
		n = arr.Len()
		elem = arr.Elem()
	case *types.Slice:
		s := x.(SliceVal)
		base, n, elem = s.P, s.Len, u.Elem()
	default:
		m.unsupported("IndexAddr on %s", in.X.Type())
	}
	m.boundsCheck(idx, n, "index")
	es := sizeof(elem)
	if idx.IsConst() {
		base.Off += int64(idx.K) * es
		return base
	}
	if base.Sym != nil {
		m.unsupported("nested symbolic index")
	}
	base.Sym, base.Stride, base.Cnt = idx, es, n
	return base
}

func (m *Machine) index(fr *Frame, in *ssa.Index) Value {
	x := m.get(fr, in.X)
	idx := m.to64(m.get(fr, in.Index).(*Term), in.Index.Type())
	switch v := x.(type) {
	case ArrayVal:
		m.boundsCheck(idx, int64(len(v)), "index")
		if idx.IsConst() {
			return v[idx.K]
		}
		var res *Term
		for i := len(v) - 1; i >= 0; i-- {
			e, ok := v[i].(*Term)
			if !ok {
				m.unsupported("symbolic index into array of non-scalars")
			}
			if res == nil {
				res = e
			} else {
				res = m.st.Ite(m.st.Eq(idx, m.st.Const(64, uint64(i))), e, res)
			}
		}
		return res
	case StringVal:
		return m.stringIndex(v, idx)
	}
	m.unsupported("Index on %T", x)
	return nil
}

func (m *Machine) stringIndex(s StringVal, idx *Term) Value {
	m.boundsCheck(idx, s.Len, "string index")
	if idx.IsConst() {
		return m.readScalar(Ptr{ID: s.P.ID, Off: s.P.Off + int64(idx.K)}, 1)
	}
	bs := m.bytesOf(s.P, s.Len)
	res := bs[len(bs)-1]
	for i := len(bs) - 2; i >= 0; i-- {
		res = m.st.Ite(m.st.Eq(idx, m.st.Const(64, uint64(i))), bs[i], res)
	}
	return res
}

func (m *Machine) lookup(fr *Frame, in *ssa.Lookup) Value {
	x := m.get(fr, in.X)
	if s, ok := x.(StringVal); ok && isString(in.X.Type()) {
		idx := m.to64(m.get(fr, in.Index).(*Term), in.Index.Type())
		return m.stringIndex(s, idx)
	}
	mt := in.X.Type().Underlying().(*types.Map)
	v, found := m.mapLookup(mt, x, m.get(fr, in.Index))
	if in.CommaOk {
		return TupleVal{v, m.st.Bool(found)}
	}
	return v
}

// sliceBound evaluates an optional slice bound.
func (m *Machine) sliceBound(fr *Frame, v ssa.Value, def int64) *Term {
	if v == nil {
		return m.st.Const(64, uint64(def))
	}
	return m.to64(m.get(fr, v).(*Term), v.Type())
}

func (m *Machine) slice(fr *Frame, in *ssa.Slice) Value {
	x := m.get(fr, in.X)
	var base Ptr
	var length, capacity, es int64
	isStr := false
	switch u := in.X.Type().Underlying().(type) {
	case *types.Slice:
		s := x.(SliceVal)
		base, length, capacity, es = s.P, s.Len, s.Cap, sizeof(u.Elem())
	case *types.Basic: // string
		s := x.(StringVal)
		base, length, capacity, es = s.P, s.Len, s.Len, 1
		isStr = true
	case *types.Pointer:
		arr := u.Elem().Underlying().(*types.Array)
		base = m.ptrOperand(x)
		if base.ID == 0 {
			m.raise(fault("nil-deref", "slice of nil array pointer"))
		}
		length, capacity, es = arr.Len(), arr.Len(), sizeof(arr.Elem())
	default:
		m.unsupported("Slice of %s", in.X.Type())
	}
	lo := m.sliceBound(fr, in.Low, 0)
	hiDef := length
	hi := m.sliceBound(fr, in.High, hiDef)
	mx := m.sliceBound(fr, in.Max, capacity)
	// 0 <= lo <= hi <= max <= cap   (unsigned compare catches negatives)
	capT := m.st.Const(64, uint64(capacity))
	ok := m.st.BAnd(m.st.Ule(mx, capT), m.st.BAnd(m.st.Ule(hi, mx), m.st.Ule(lo, hi)))
	if !ok.IsConst() {
		m.implicitChecks++
	}
	if !m.branch(ok) {
		m.raise(fault("slice-bounds", "slice bounds out of range [%s:%s] with capacity %d", termStr(lo), termStr(hi), capacity))
	}
	l := m.concretize(lo, 0, capacity, "slice low")
	h := m.concretize(hi, l, capacity, "slice high")
	c := m.concretize(mx, h, capacity, "slice max")
	np := base
	if l > 0 || base.ID != 0 {
		np.Off += l * es
	}
	if isStr {
		if h-l == 0 {
			return StringVal{}
		}
		return StringVal{P: np, Len: h - l}
	}
	if base.ID == 0 {
		return SliceVal{}
	}
	return SliceVal{P: np, Len: h - l, Cap: c - l}
}

func termStr(t *Term) string {
	if t.IsConst() {
		return fmt.Sprint(t.SVal())
	}
	return "sym"
}

func (m *Machine) makeSlice(fr *Frame, in *ssa.MakeSlice) Value {
	elem := in.Type().Underlying().(*types.Slice).Elem()
	es := sizeof(elem)
	lt := m.to64(m.get(fr, in.Len).(*Term), in.Len.Type())
	ct := m.to64(m.get(fr, in.Cap).(*Term), in.Cap.Type())
	m.checkAllocCount(ct, es, "make([]T) cap", true)
	okLen := m.st.Ule(lt, ct)
	if !m.branch(okLen) {
		m.raise(fault("makeslice", "makeslice: len out of range"))
	}
	c := m.concretize(ct, 0, 1<<30, "make cap")
	l := m.concretize(lt, 0, c, "make len")
	o := m.w.Alloc(c*es, "make "+in.Type().String())
	return SliceVal{P: Ptr{ID: o.id}, Len: l, Cap: c}
}

// checkAllocCount checks a (possibly symbolic) element count of an
// allocation: negative / huge counts panic in the runtime (if panics is set)
// and counts above the allocation budget are reported as alloc-budget faults.
func (m *Machine) checkAllocCount(n *Term, elemSize int64, what string, panics bool) {
	if elemSize <= 0 {
		elemSize = 1
	}
	if n.IsConst() {
		v := n.SVal()
		if v < 0 || v > (1<<40) {
			if panics {
				m.raise(fault("alloc-size", "%s: size %d out of range", what, v))
			}
			if v > 0 && m.allocBudget > 0 {
				m.raise(fault("alloc-budget", "%s: %d elements of %d bytes exceeds budget %d", what, v, elemSize, m.allocBudget))
			}
			return
		}
		if m.allocBudget > 0 && v*elemSize > m.allocBudget {
			m.raise(fault("alloc-budget", "%s: %d elements of %d bytes exceeds budget %d", what, v, elemSize, m.allocBudget))
		}
		return
	}
	if panics {
		neg := m.st.Slt(n, m.st.Const(64, 0))
		if m.branch(neg) {
			m.raise(fault("alloc-size", "%s: negative size", what))
		}
	}
	m.implicitChecks++
	budget := m.allocBudget
	if budget <= 0 {
		budget = 1 << 20
	}
	lim := budget / elemSize
	over := m.st.Slt(m.st.Const(64, uint64(lim)), n)
	if m.branch(over) {
		m.raise(fault("alloc-budget", "%s: input-controlled size can exceed %d elements of %d bytes (budget %d bytes)", what, lim, elemSize, budget))
	}
}

// ---------- type assertion ----------

func (m *Machine) typeAssert(fr *Frame, in *ssa.TypeAssert) Value {
	iv := m.get(fr, in.X).(IfaceVal)
	ok := false
	var res Value
	if it, isIface := in.AssertedType.Underlying().(*types.Interface); isIface {
		if iv.T != nil && m.P.implements(iv.T, it) {
			ok = true
			res = iv
		} else {
			res = IfaceVal{}
		}
	} else {
		if iv.T != nil && types.Identical(iv.T, in.AssertedType) {
			ok = true
			res = iv.V
		} else {
			res = m.Zero(in.AssertedType)
		}
	}
	if in.CommaOk {
		return TupleVal{res, m.st.Bool(ok)}
	}
	if !ok {
		m.raise(fault("type-assert", "interface conversion: %v is not %s", iv.T, in.AssertedType))
	}
	return res
}
