package main

// IEEE-754 width conversions on symbolic bit patterns, written out as
// bit-vector terms (no FP theory): float32 -> float64 is exact; float64 ->
// float32 rounds to nearest even. NaNs are quieted the way amd64's
// CVTSS2SD / CVTSD2SS do it (payload truncated/extended, quiet bit set).

func (m *Machine) f32to64(v *Term) *Term {
	s := m.st
	sign := s.Extract(v, 31, 1)
	e := s.Extract(v, 23, 8)
	f := s.Extract(v, 0, 23)
	pack := func(exp *Term, frac23 *Term) *Term { // sign | exp(11) | frac23 | 0^29
		return s.Concat(sign, s.Concat(exp, s.Concat(frac23, s.Const(29, 0))))
	}
	normal := pack(s.BV(OpAdd, s.ZExt(e, 11), s.Const(11, 896)), f)
	fz := s.Eq(f, s.Const(23, 0))
	infnan := pack(s.Const(11, 0x7ff), s.Ite(fz, f, s.BV(OpOr, f, s.Const(23, 1<<22))))
	// subnormal: the highest set bit p of f becomes the implicit one
	sub := pack(s.Const(11, 0), s.Const(23, 0))
	for p := 0; p <= 22; p++ {
		bit := s.Eq(s.Extract(f, uint8(p), 1), s.Const(1, 1))
		frac := s.BV(OpShl, f, s.Const(23, uint64(23-p))) // drops the leading one
		sub = s.Ite(bit, pack(s.Const(11, uint64(p+874)), frac), sub)
	}
	return s.Ite(s.Eq(e, s.Const(8, 255)), infnan, s.Ite(s.Eq(e, s.Const(8, 0)), sub, normal))
}

func (m *Machine) f64to32(v *Term) *Term {
	s := m.st
	c64 := func(k uint64) *Term { return s.Const(64, k) }
	sign := s.Extract(v, 63, 1)
	e := s.Extract(v, 52, 11)
	f := s.Extract(v, 0, 52)
	e64 := s.ZExt(e, 64)
	withSign := func(mag31 *Term) *Term { return s.Concat(sign, mag31) }
	// inf / nan
	fz := s.Eq(f, s.Const(52, 0))
	nanFrac := s.BV(OpOr, s.Extract(f, 29, 23), s.Const(23, 1<<22))
	infnan := withSign(s.Concat(s.Const(8, 255), s.Ite(fz, s.Const(23, 0), nanFrac)))
	// significand with the implicit one, shifted right by sh with round to nearest even
	sig := s.BV(OpOr, s.ZExt(f, 64), c64(1<<52))
	round := func(sh *Term) *Term { // sh in 1..63
		one := c64(1)
		mant := s.BV(OpLShr, sig, sh)
		msk := s.BV(OpSub, s.BV(OpShl, one, sh), one)
		rem := s.BV(OpAnd, sig, msk)
		half := s.BV(OpShl, one, s.BV(OpSub, sh, one))
		up := s.BOr(s.Ult(half, rem), s.BAnd(s.Eq(rem, half), s.Eq(s.Extract(mant, 0, 1), s.Const(1, 1))))
		return s.BV(OpAdd, mant, s.Ite(up, one, c64(0)))
	}
	// normal result: e32 = e-896 in 1..254; (e32<<23 | frac23) + roundup, the carry
	// runs into the exponent (and to infinity) by itself
	m24 := round(c64(29)) // 24 bits incl. the implicit one (25 after a carry)
	e32m1 := s.BV(OpSub, e64, c64(897))
	normal := s.Extract(s.BV(OpAdd, s.BV(OpShl, e32m1, c64(23)), m24), 0, 31)
	// subnormal result: shift by 926-e (30..54); beyond that everything rounds to zero
	sh := s.BV(OpSub, c64(926), e64)
	sub := s.Extract(round(sh), 0, 31)
	zero := s.Const(31, 0)
	inf := s.Concat(s.Const(8, 255), s.Const(23, 0))
	res := s.Ite(s.Ult(c64(1150), e64), withSign(inf), // e32 >= 255
		s.Ite(s.Ult(c64(896), e64), withSign(normal),
			s.Ite(s.Ult(e64, c64(872)), withSign(zero), withSign(sub))))
	return s.Ite(s.Eq(e, s.Const(11, 0x7ff)), infnan, res)
}
