package main

// Loading /repo's current source (through the harness module), building SSA,
// package initialisation into the shared base world, harness discovery.

import (
	"fmt"
	"go/types"
	"os"
	"sort"
	"strings"
	"sync"
	"time"

	"golang.org/x/tools/go/packages"
	"golang.org/x/tools/go/ssa"
	"golang.org/x/tools/go/ssa/ssautil"
)

type ssaFunc = ssa.Function

type Options struct {
	Solver         string
	QueryTimeoutMs int
	StepLimit      int64
	LoopBound      int
	Debug          bool
	HarnessDir     string
	Overlay        map[string][]byte
	Tier           string
	Mid            bool          // thorough tier: intermediate bounds (retry of a variant that exceeded its budget)
	ForceQuick     bool          // thorough tier fallback: this harness runs at the quick bounds
	WallBudget     time.Duration // exploration of one harness stops (Truncated) after this long; 0 = no limit
	Variant        int           // thorough tier: which focus variant of a harness is being explored
}

type Intrinsic func(m *Machine, fn *ssa.Function, args []Value) Value

type Harness struct {
	Name string
	Fn   *ssa.Function
}

type Program struct {
	opts           Options
	prog           *ssa.Program
	pkgs           []*ssa.Package
	byPath         map[string]*ssa.Package
	base           *World
	baseStore      *Store
	intr           map[string]Intrinsic
	intrCache      sync.Map // *ssa.Function -> Intrinsic (or nil marker)
	rtypePtr       types.Type
	reflectPkg     *types.Package
	errorStringPtr types.Type
	numErrorT      types.Type
	harnesses      map[string]*Harness
	initOrder      []*ssa.Package
	inited         map[*ssa.Package]bool // in base
	initMu         sync.Mutex
	methMu         sync.Mutex
	methCache      map[methKey]*ssa.Function
	LoadedFiles    []string
}

type methKey struct {
	T    types.Type
	name string
}

func LoadProgram(opts Options) (*Program, error) {
	cfg := &packages.Config{
		Mode:    packages.LoadAllSyntax,
		Dir:     opts.HarnessDir,
		Env:     append(os.Environ(), "GOFLAGS=-mod=mod", "GOPROXY=off", "GOSUMDB=off", "GOTOOLCHAIN=local"),
		Overlay: opts.Overlay,
	}
	initial, err := packages.Load(cfg, "./props")
	if err != nil {
		return nil, err
	}
	nerr := 0
	packages.Visit(initial, nil, func(p *packages.Package) {
		for _, e := range p.Errors {
			fmt.Fprintf(os.Stderr, "load error: %s: %v\n", p.PkgPath, e)
			nerr++
		}
	})
	if nerr > 0 {
		return nil, fmt.Errorf("%d package load errors", nerr)
	}
	prog, _ := ssautil.AllPackages(initial, ssa.InstantiateGenerics)
	prog.Build()
	P := &Program{opts: opts, prog: prog, byPath: map[string]*ssa.Package{}, intr: map[string]Intrinsic{},
		harnesses: map[string]*Harness{}, inited: map[*ssa.Package]bool{}, methCache: map[methKey]*ssa.Function{}}
	for _, p := range prog.AllPackages() {
		P.pkgs = append(P.pkgs, p)
		P.byPath[p.Pkg.Path()] = p
	}
	packages.Visit(initial, nil, func(p *packages.Package) {
		if strings.HasPrefix(p.PkgPath, "github.com/philpearl/plenc") {
			P.LoadedFiles = append(P.LoadedFiles, p.GoFiles...)
		}
	})
	sort.Strings(P.LoadedFiles)
	if rp := P.byPath["reflect"]; rp != nil {
		P.reflectPkg = rp.Pkg
		P.rtypePtr = types.NewPointer(rp.Pkg.Scope().Lookup("rtype").Type())
	}
	if ep := P.byPath["errors"]; ep != nil {
		P.errorStringPtr = types.NewPointer(ep.Pkg.Scope().Lookup("errorString").Type())
	}
	if sp := P.byPath["strconv"]; sp != nil {
		P.numErrorT = sp.Pkg.Scope().Lookup("NumError").Type()
	}
	registerIntrinsics(P)

	// base world: storage for every global of every package
	P.base = NewWorld()
	P.baseStore = NewStoreAt(0)
	for _, p := range P.pkgs {
		names := make([]string, 0, len(p.Members))
		for n := range p.Members {
			names = append(names, n)
		}
		sort.Strings(names)
		for _, n := range names {
			if g, ok := p.Members[n].(*ssa.Global); ok {
				T := g.Type().Underlying().(*types.Pointer).Elem()
				o := P.base.Alloc(sizeof(T), "global "+g.String())
				P.base.globals[g] = o.id
			}
		}
	}
	// harnesses
	if hp := P.byPath["vharness/props"]; hp != nil {
		for n, mem := range hp.Members {
			if f, ok := mem.(*ssa.Function); ok && strings.HasPrefix(n, "H") && len(n) > 3 && n[1] >= '0' && n[1] <= '9' && len(f.Params) == 0 {
				P.harnesses[n] = &Harness{Name: n, Fn: f}
			}
		}
	}
	// eager initialisation of the packages under test into the base world
	bm := &Machine{P: P, w: P.base, st: P.baseStore, lenient: true, stepLimit: 50_000_000, loopBound: 1 << 20,
		nameCount: map[string]int{}}
	for _, path := range []string{"unicode/utf8", "time", "github.com/philpearl/plenc/plenccore",
		"github.com/philpearl/plenc/plenccodec", "github.com/philpearl/plenc", "github.com/philpearl/plenc/null",
		"vharness/vrt", "vharness/props"} {
		if p := P.byPath[path]; p != nil {
			if err := P.runInitBase(bm, p); err != nil {
				return nil, fmt.Errorf("initialising %s: %v", path, err)
			}
		}
	}
	return P, nil
}

func (P *Program) runInitBase(bm *Machine, p *ssa.Package) (err error) {
	defer func() {
		if r := recover(); r != nil {
			if pe, ok := r.(*PathEnd); ok {
				err = fmt.Errorf("%s", pe.String())
				return
			}
			panic(r)
		}
	}()
	P.runInit(bm, p)
	return nil
}

// runInit executes the package initialiser of p in m's world (once).
func (P *Program) runInit(m *Machine, p *ssa.Package) {
	if m.w == P.base {
		if P.inited[p] {
			return
		}
		P.inited[p] = true
	} else {
		if P.inited[p] {
			return
		}
		// not initialised in the base world: a path needs it lazily
		if m.w.inited == nil {
			m.w.inited = map[*ssa.Package]bool{}
		}
		if m.w.inited[p] {
			return
		}
		m.w.inited[p] = true
	}
	init := p.Func("init")
	if init == nil || init.Blocks == nil {
		return
	}
	saveL, saveT := m.lenient, m.initTop
	m.lenient = true
	m.initTop = init
	m.callFunction(init, nil, nil)
	m.lenient, m.initTop = saveL, saveT
}

func (P *Program) ensureInit(m *Machine, p *ssa.Package) {
	if P.inited[p] {
		return
	}
	if m.w.inited != nil && m.w.inited[p] {
		return
	}
	P.runInit(m, p)
}

func (P *Program) intrinsicFor(fn *ssa.Function) Intrinsic {
	if v, ok := P.intrCache.Load(fn); ok {
		if v == nil {
			return nil
		}
		return v.(Intrinsic)
	}
	var in Intrinsic
	name := fn.String()
	if i, ok := P.intr[name]; ok {
		in = i
	} else if o := fn.Origin(); o != nil {
		if i, ok := P.intr[o.String()]; ok {
			in = i
		}
	}
	if in == nil {
		P.intrCache.Store(fn, nil)
		return nil
	}
	P.intrCache.Store(fn, in)
	return in
}

func (P *Program) lookupMethod(T types.Type, meth *types.Func) *ssa.Function {
	P.methMu.Lock()
	defer P.methMu.Unlock()
	key := methKey{T, meth.Id()}
	if f, ok := P.methCache[key]; ok {
		return f
	}
	var f *ssa.Function
	func() {
		defer func() { recover() }()
		f = P.prog.LookupMethod(T, meth.Pkg(), meth.Name())
	}()
	P.methCache[key] = f
	return f
}

func (P *Program) implements(T types.Type, it *types.Interface) bool {
	return types.Implements(T, it)
}

func (P *Program) HarnessNames(prefix string) []string {
	var ns []string
	for n := range P.harnesses {
		if strings.HasPrefix(n, prefix) {
			ns = append(ns, n)
		}
	}
	sort.Strings(ns)
	return ns
}
