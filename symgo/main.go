package main

import (
	"flag"
	"fmt"
	"os"
	"regexp"
	"runtime"
	"sort"
	"time"
)

func main() {
	if len(os.Args) < 2 {
		fmt.Fprintln(os.Stderr, "usage: symgo run|check ...")
		os.Exit(2)
	}
	switch os.Args[1] {
	case "run":
		cmdRun(os.Args[2:])
	case "check":
		os.Exit(cmdCheck(os.Args[2:]))
	case "replay":
		os.Exit(cmdReplay(os.Args[2:]))
	case "gen":
		os.Exit(cmdGen(os.Args[2:]))
	default:
		fmt.Fprintln(os.Stderr, "unknown command")
		os.Exit(2)
	}
}

func defaultOptions() Options {
	return Options{Solver: "z3", QueryTimeoutMs: 20000, StepLimit: 3_000_000, LoopBound: 4096, HarnessDir: verifRoot() + "/harness"}
}

func cmdRun(args []string) {
	fs := flag.NewFlagSet("run", flag.ExitOnError)
	pat := fs.String("h", ".*", "harness name regexp")
	workers := fs.Int("workers", runtime.NumCPU(), "workers")
	maxPaths := fs.Int("maxpaths", 0, "max paths per harness")
	debug := fs.Bool("debug", false, "debug")
	solver := fs.String("solver", "z3", "solver")
	verbose := fs.Bool("v", false, "verbose")
	tier := fs.String("tier", "", "quick|thorough")
	variant := fs.Int("variant", 0, "thorough variant")
	mid := fs.Bool("mid", false, "thorough tier at the intermediate bounds")
	fs.Parse(args)
	opts := defaultOptions()
	if *tier != "" {
		opts.Tier = *tier
	}
	opts.Variant = *variant
	opts.Mid = *mid
	opts.Debug = *debug
	opts.Solver = *solver
	t0 := time.Now()
	P, err := LoadProgram(opts)
	if err != nil {
		fmt.Fprintln(os.Stderr, "load:", err)
		os.Exit(2)
	}
	fmt.Printf("loaded in %v, %d harnesses\n", time.Since(t0), len(P.harnesses))
	if os.Getenv("SYMGO_SITES") != "" {
		querySites = map[string]int{}
		defer func() {
			type kv struct {
				k string
				v int
			}
			var l []kv
			for k, v := range querySites {
				l = append(l, kv{k, v})
			}
			sort.Slice(l, func(i, j int) bool { return l[i].v > l[j].v })
			for i, e := range l {
				if i < 25 {
					fmt.Printf("%8d %s\n", e.v, e.k)
				}
			}
		}()
	}
	re := regexp.MustCompile(*pat)
	var names []string
	for n := range P.harnesses {
		if re.MatchString(n) {
			names = append(names, n)
		}
	}
	sort.Strings(names)
	for _, n := range names {
		hr := P.Explore(P.harnesses[n], *workers, *maxPaths, 3)
		fmt.Printf("%-40s paths=%d ok=%d infeasible=%d viol=%d unsupported=%d inconcl=%d steps=%d qfeas=%d qassert=%d unk=%d wall=%v solver=%v trunc=%v\n",
			n, hr.Paths, hr.PathsOK, hr.Infeasible, len(hr.Viols), len(hr.Unsupported), len(hr.Inconclusive), hr.Steps, hr.QFeas, hr.QAssert, hr.Unknowns, hr.Wall.Round(time.Millisecond), hr.SolverTime.Round(time.Millisecond), hr.Truncated)
		seen := map[string]bool{}
		for _, v := range hr.Viols {
			k := v.V.Kind + v.V.Label + v.V.Site
			if seen[k] && !*verbose {
				continue
			}
			seen[k] = true
			fmt.Printf("   VIOL %s/%s at %s: %s\n      model: %s\n", v.V.Kind, v.V.Label, v.V.Site, v.V.Msg, modelString(v.V))
		}
		for _, u := range hr.Unsupported {
			fmt.Printf("   UNSUPPORTED %s\n", u)
		}
		for i, u := range hr.Inconclusive {
			if i < 10 {
				fmt.Printf("   INCONCLUSIVE %s\n", u)
			}
		}
	}
}

func modelString(v *Violation) string {
	s := ""
	for _, nd := range v.Nondets {
		if nd.Kind == "choice" || nd.Kind == "variant" {
			s += fmt.Sprintf("%s=%d ", nd.Name, nd.Val)
		} else {
			s += fmt.Sprintf("%s=%#x ", nd.Name, v.Model[nd.Name])
		}
	}
	return s
}



// verifRoot / repoRoot: /verif and /repo, unless a background run works on
// snapshot copies (VERIF_ROOT / VERIF_REPO; the harness module's replace
// directive must then point at the same copy of the repository).
func verifRoot() string {
	if v := os.Getenv("VERIF_ROOT"); v != "" {
		return v
	}
	return "/verif"
}

func repoRoot() string {
	if v := os.Getenv("VERIF_REPO"); v != "" {
		return v
	}
	return "/repo"
}
