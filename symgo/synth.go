package main

// Synthetic struct types with symbolic field names / tag texts (used by the
// type-definition properties C08 and C14). Filled in by vrt.SymStruct.

import "go/types"

type SynthField struct {
	Name   Value // StringVal (possibly symbolic bytes)
	Type   types.Type
	Tag    SynthTag
	Offset int64
}

type SynthStruct struct {
	Name   string
	Fields []SynthField
	Size   int64
}

func (s *SynthStruct) Underlying() types.Type { return s }
func (s *SynthStruct) String() string         { return "synth." + s.Name }

// SynthTag is a struct tag whose per-key values are (possibly symbolic) strings.
type SynthTag struct {
	Keys map[string]Value
}

func (m *Machine) synthTypeMethod(st *SynthStruct, name string, args []Value) Value {
	m.unsupported("synthetic struct type method %s", name)
	return nil
}
