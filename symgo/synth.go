package main

// Synthetic struct types with symbolic tag texts (type-definition properties
// C08 and C14): created by vrt.StructOf. Layout, kind and field types come
// from a real go/types struct; the per-field tag values are (possibly
// symbolic) strings.

import (
	"go/token"
	"go/types"

	"golang.org/x/tools/go/ssa"
)

type SynthStruct struct {
	Name string
	St   *types.Struct
	Tags []SynthTag
}

func (s *SynthStruct) Underlying() types.Type { return s.St }
func (s *SynthStruct) String() string         { return "struct{...}" }

// SynthTag is a struct tag whose per-key values are (possibly symbolic) strings.
type SynthTag struct {
	Keys map[string]Value
}

type synthTagAux struct{ tag SynthTag }

func (a *synthTagAux) CloneAux() Aux { return a }

func (m *Machine) synthTagOf(v Value) (SynthTag, bool) {
	sv, ok := v.(StringVal)
	if !ok || sv.P.ID == 0 || sv.P.Off != 0 {
		return SynthTag{}, false
	}
	a, ok := m.w.AuxR(sv.P).(*synthTagAux)
	if !ok {
		return SynthTag{}, false
	}
	return a.tag, true
}

func (m *Machine) synthTypeMethod(st *SynthStruct, name string, args []Value) Value {
	switch name {
	case "Name", "PkgPath":
		return StringVal{}
	case "String":
		return m.constString("struct {...}")
	case "Field":
		i := m.constInt(args[0].(*Term), "Field index")
		if i < 0 || i >= int64(st.St.NumFields()) {
			m.raise(fault("panic", "reflect: Field index out of bounds"))
		}
		f := st.St.Field(int(i))
		// the tag travels as a 1-byte string whose backing object carries the
		// per-key values (it may be stored to memory like any string)
		o := m.w.Alloc(1, "synthetic struct tag")
		o.slots[0] = Slot{kind: slotScalar, size: 1, t: m.st.Const(8, '?')}
		tp := Ptr{ID: o.id}
		m.w.SetAux(tp, &synthTagAux{tag: st.Tags[i]})
		return m.structFieldValue(f.Name(), "", f.Type(), StringVal{P: tp, Len: 1}, fieldOffsets(st.St)[i], int(i), false)
	}
	return m.reflectTypeMethod(st.St, name, args)
}

func registerSynth(P *Program) {
	P.intr[vrtPkg+"StructOf"] = func(m *Machine, fn *ssa.Function, args []Value) Value {
		specs := args[0].(SliceVal)
		specT := fn.Signature.Params().At(0).Type().Underlying().(*types.Slice).Elem()
		sst := specT.Underlying().(*types.Struct)
		es := sizeof(specT)
		var vars []*types.Var
		var tags []SynthTag
		for i := int64(0); i < specs.Len; i++ {
			sv := m.Load(specT, Ptr{ID: specs.P.ID, Off: specs.P.Off + i*es}).(StructVal)
			var name string
			var ft types.Type
			tag := SynthTag{Keys: map[string]Value{}}
			var hasP, hasJ bool
			var ptxt, jtxt Value
			for k := 0; k < sst.NumFields(); k++ {
				switch sst.Field(k).Name() {
				case "Name":
					name = m.mustGoString(sv[k], "field name")
				case "Type":
					iv := sv[k].(IfaceVal)
					tt, ok := iv.V.(TypeTok)
					if !ok {
						m.unsupported("StructOf: field type is not a reflect.Type")
					}
					ft = tt.T
				case "Plenc":
					ptxt = sv[k]
				case "JSON":
					jtxt = sv[k]
				case "HasPlenc":
					hasP = sv[k].(*Term).IsTrue()
				case "HasJSON":
					hasJ = sv[k].(*Term).IsTrue()
				}
			}
			if hasP {
				tag.Keys["plenc"] = ptxt
			}
			if hasJ {
				tag.Keys["json"] = jtxt
			}
			vars = append(vars, types.NewField(token.NoPos, nil, name, ft, false))
			tags = append(tags, tag)
		}
		st := &SynthStruct{Name: "synth", St: types.NewStruct(vars, nil), Tags: tags}
		return m.typeIface(st)
	}
}
