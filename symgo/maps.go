package main

// Go maps: an association list of (key object, value object) pairs in
// insertion order. Lookups with symbolic keys fork on key equality. Iteration
// starts at a nondeterministic rotation of the insertion order (what the gc
// runtime does for small maps) when mapOrderFork is set.

import (
	"go/types"
	"strconv"

	"golang.org/x/tools/go/ssa"
)

type MapEntry struct {
	K, V int32 // object ids
}

type MapData struct {
	KT, VT  types.Type
	Entries []MapEntry
	// Idx: position of every entry whose key is a concrete string or integer
	// (keys never change once stored); NonIdx counts the other entries. A
	// lookup with a concrete key in a map without symbolic keys is one hash
	// probe instead of a scan, which is what makes histories with ~1000
	// entries affordable. Purely an optimisation of mapFind.
	Idx    map[string]int32
	NonIdx int
}

func (d *MapData) CloneAux() Aux {
	n := &MapData{KT: d.KT, VT: d.VT, Entries: make([]MapEntry, len(d.Entries)), NonIdx: d.NonIdx}
	copy(n.Entries, d.Entries)
	if d.Idx != nil {
		n.Idx = make(map[string]int32, len(d.Idx))
		for k, v := range d.Idx {
			n.Idx[k] = v
		}
	}
	return n
}

// keyIndex: a hashable rendering of a concrete string / integer key.
func (m *Machine) keyIndex(KT types.Type, key Value) (string, bool) {
	switch k := key.(type) {
	case StringVal:
		if s, ok := m.goString(k); ok {
			return "s" + s, true
		}
	case *Term:
		if b, isB := KT.Underlying().(*types.Basic); isB && b.Info()&types.IsInteger != 0 && k.IsConst() {
			return "i" + strconv.FormatUint(k.K, 16), true
		}
	}
	return "", false
}

func (m *Machine) reindex(d *MapData) {
	d.Idx, d.NonIdx = map[string]int32{}, 0
	for i, e := range d.Entries {
		if ks, ok := m.keyIndex(d.KT, m.Load(d.KT, Ptr{ID: e.K})); ok {
			d.Idx[ks] = int32(i)
		} else {
			d.NonIdx++
		}
	}
}

func (m *Machine) newMap(mt *types.Map) Value {
	o := m.w.Alloc(8, "map "+mt.String())
	p := Ptr{ID: o.id}
	m.w.SetAux(p, &MapData{KT: mt.Key(), VT: mt.Elem()})
	return p
}

func (m *Machine) mapData(v Value, write bool) *MapData {
	p, ok := v.(Ptr)
	if !ok || p.ID == 0 || p.Off != 0 {
		if v == nil || (ok && p.IsNil()) {
			return nil
		}
		m.raise(fault("type-confusion", "value used as a map is %T %+v", v, v))
	}
	var a Aux
	if write {
		a = m.w.AuxW(p)
	} else {
		a = m.w.AuxR(p)
	}
	d, ok := a.(*MapData)
	if !ok {
		m.raise(fault("type-confusion", "pointer used as a map does not point to a map (object %q)", m.w.R(p.ID).desc))
	}
	return d
}

func (m *Machine) mapLen(v Value) int {
	d := m.mapData(v, false)
	if d == nil {
		return 0
	}
	return len(d.Entries)
}

// mapFind returns the index of the entry whose key equals key, or -1.
func (m *Machine) mapFind(d *MapData, key Value) int {
	if d.NonIdx == 0 && len(d.Entries) > 8 {
		if ks, ok := m.keyIndex(d.KT, key); ok {
			if i, hit := d.Idx[ks]; hit {
				return int(i)
			}
			return -1
		}
	}
	for i, e := range d.Entries {
		k := m.Load(d.KT, Ptr{ID: e.K})
		eq := m.eqValues(d.KT, k, key)
		if m.branch(eq) {
			return i
		}
	}
	return -1
}

func (m *Machine) mapLookup(mt *types.Map, mv Value, key Value) (Value, bool) {
	d := m.mapData(mv, false)
	if d == nil {
		return m.Zero(mt.Elem()), false
	}
	i := m.mapFind(d, key)
	if i < 0 {
		return m.Zero(mt.Elem()), false
	}
	return m.Load(d.VT, Ptr{ID: d.Entries[i].V}), true
}

// mapAssign returns a pointer to the value slot for key, inserting a zero
// value if absent.
func (m *Machine) mapAssign(mv Value, key Value) Ptr {
	d := m.mapData(mv, false)
	if d == nil {
		m.raise(fault("nil-map-write", "assignment to entry in nil map"))
	}
	i := m.mapFind(d, key)
	if i >= 0 {
		// like the runtime: for key types whose equal values can differ in
		// representation (strings, floats, interfaces) the stored key is
		// overwritten by the one just used
		if needKeyUpdate(d.KT) {
			m.Store(d.KT, Ptr{ID: d.Entries[i].K}, key)
		}
		return Ptr{ID: d.Entries[i].V}
	}
	d = m.mapData(mv, true)
	ko := m.w.Alloc(sizeof(d.KT), "map-key")
	m.Store(d.KT, Ptr{ID: ko.id}, key)
	vo := m.w.Alloc(sizeof(d.VT), "map-value")
	d.Entries = append(d.Entries, MapEntry{K: ko.id, V: vo.id})
	if ks, ok := m.keyIndex(d.KT, key); ok {
		if d.Idx == nil {
			d.Idx = map[string]int32{}
		}
		d.Idx[ks] = int32(len(d.Entries) - 1)
	} else {
		d.NonIdx++
	}
	return Ptr{ID: vo.id}
}

func (m *Machine) mapUpdate(mt *types.Map, mv, key, val Value) {
	p := m.mapAssign(mv, key)
	m.Store(mt.Elem(), p, val)
}

func (m *Machine) mapDelete(mt *types.Map, mv, key Value) {
	d := m.mapData(mv, false)
	if d == nil {
		return
	}
	i := m.mapFind(d, key)
	if i < 0 {
		return
	}
	d = m.mapData(mv, true)
	d.Entries = append(d.Entries[:i:i], d.Entries[i+1:]...)
	m.reindex(d)
}

// ---- iteration ----

type IterState struct {
	IsString bool
	Str      StringVal
	Map      Value
	Order    []MapEntry
	Pos      int
}

func (it *IterState) CloneAux() Aux { n := *it; return &n }

func (m *Machine) iterOrder(d *MapData) []MapEntry {
	n := len(d.Entries)
	order := make([]MapEntry, n)
	copy(order, d.Entries)
	if n > 1 && m.mapOrderFork && n <= 4 {
		r := int(m.decide(n, "map-order"))
		for i := range order {
			order[i] = d.Entries[(i+r)%n]
		}
	}
	return order
}

func (m *Machine) rangeStart(T types.Type, x Value) Value {
	if isString(T) {
		return &IterState{IsString: true, Str: x.(StringVal)}
	}
	it := &IterState{Map: x}
	if d := m.mapData(x, false); d != nil {
		it.Order = m.iterOrder(d)
	}
	return it
}

func (m *Machine) rangeNext(in *ssa.Next, iv Value) Value {
	it := iv.(*IterState)
	if it.IsString {
		if int64(it.Pos) >= it.Str.Len {
			return TupleVal{m.st.False, m.st.Const(64, 0), m.st.Const(32, 0)}
		}
		// byte-wise for ASCII; multi-byte runes need concrete bytes
		b := m.readScalar(Ptr{ID: it.Str.P.ID, Off: it.Str.P.Off + int64(it.Pos)}, 1)
		if !b.IsConst() {
			isASCII := m.st.Ult(b, m.st.Const(8, 0x80))
			if !m.branch(isASCII) {
				m.unsupported("range over string with symbolic non-ASCII byte")
			}
			idx := it.Pos
			it.Pos++
			return TupleVal{m.st.True, m.st.Const(64, uint64(idx)), m.st.ZExt(b, 32)}
		}
		s, ok := m.goString(StringVal{P: Ptr{ID: it.Str.P.ID, Off: it.Str.P.Off + int64(it.Pos)}, Len: min64(4, it.Str.Len-int64(it.Pos))})
		if !ok {
			m.unsupported("range over string with partially symbolic rune")
		}
		idx := it.Pos
		for _, r := range s {
			n := len(string(r))
			if r == 0xFFFD {
				n = 1
			}
			it.Pos += n
			return TupleVal{m.st.True, m.st.Const(64, uint64(idx)), m.st.Const(32, uint64(r))}
		}
	}
	d := m.mapData(it.Map, false)
	for it.Pos < len(it.Order) {
		e := it.Order[it.Pos]
		it.Pos++
		// skip entries deleted since the iteration started
		live := false
		for _, c := range d.Entries {
			if c == e {
				live = true
				break
			}
		}
		if !live {
			continue
		}
		return TupleVal{m.st.True, m.Load(d.KT, Ptr{ID: e.K}), m.Load(d.VT, Ptr{ID: e.V})}
	}
	mt := in.Iter.(*ssa.Range).X.Type().Underlying().(*types.Map)
	return TupleVal{m.st.False, m.Zero(mt.Key()), m.Zero(mt.Elem())}
}

func min64(a, b int64) int64 {
	if a < b {
		return a
	}
	return b
}


func needKeyUpdate(T types.Type) bool {
	switch u := T.Underlying().(type) {
	case *types.Basic:
		return u.Info()&(types.IsString|types.IsFloat|types.IsComplex) != 0
	case *types.Interface:
		return true
	case *types.Struct:
		for i := 0; i < u.NumFields(); i++ {
			if needKeyUpdate(u.Field(i).Type()) {
				return true
			}
		}
	case *types.Array:
		return needKeyUpdate(u.Elem())
	}
	return false
}
