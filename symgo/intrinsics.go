package main

// Environment model: the harness API (vrt), a go/types-backed model of the
// parts of reflect plenc uses, the linknamed runtime functions, sync, fmt,
// and a few std-lib leaves whose bodies are assembly or table driven.

import (
	"fmt"
	"go/types"
	"math"
	"reflect"
	"strings"
	"unicode"

	"golang.org/x/tools/go/ssa"
)

const vrtPkg = "vharness/vrt."
const codecPkg = "github.com/philpearl/plenc/plenccodec."

func registerIntrinsics(P *Program) {
	I := P.intr
	// ---------------- harness API ----------------
	nondet := func(w uint8, kind string) Intrinsic {
		return func(m *Machine, fn *ssa.Function, args []Value) Value {
			name := m.mustGoString(args[0], "nondet name")
			return m.freshVar(name, w, kind)
		}
	}
	I[vrtPkg+"U64"] = nondet(64, "u64")
	I[vrtPkg+"I64"] = nondet(64, "u64")
	I[vrtPkg+"Int"] = nondet(64, "u64")
	I[vrtPkg+"Uint"] = nondet(64, "u64")
	I[vrtPkg+"U32"] = nondet(32, "u32")
	I[vrtPkg+"I32"] = nondet(32, "u32")
	I[vrtPkg+"U16"] = nondet(16, "u16")
	I[vrtPkg+"I16"] = nondet(16, "u16")
	I[vrtPkg+"U8"] = nondet(8, "u8")
	I[vrtPkg+"I8"] = nondet(8, "u8")
	I[vrtPkg+"Bool"] = func(m *Machine, fn *ssa.Function, args []Value) Value {
		name := m.mustGoString(args[0], "nondet name")
		v := m.freshVar(name, 8, "bool").(*Term)
		b := m.st.Ne(v, m.st.Const(8, 0))
		// canonical encoding 0/1
		m.addPC(m.st.Ult(v, m.st.Const(8, 2)))
		return b
	}
	I[vrtPkg+"Choice"] = func(m *Machine, fn *ssa.Function, args []Value) Value {
		name := m.mustGoString(args[0], "choice name")
		n := m.constInt(args[1].(*Term), "Choice n")
		v := m.decide(int(n), name)
		m.nondets = append(m.nondets, NondetRec{Name: name, Kind: "choice", Val: v})
		return m.st.Const(64, uint64(v))
	}
	I[vrtPkg+"Bytes"] = func(m *Machine, fn *ssa.Function, args []Value) Value {
		name := m.mustGoString(args[0], "nondet name")
		n := m.constInt(args[1].(*Term), "Bytes n")
		ts := make([]*Term, n)
		for i := range ts {
			ts[i] = m.freshVar(fmt.Sprintf("%s_%d", name, i), 8, "u8").(*Term)
		}
		p := m.newBytes(ts, "nondet-bytes "+name)
		return SliceVal{P: p, Len: n, Cap: n}
	}
	I[vrtPkg+"BytesTail"] = func(m *Machine, fn *ssa.Function, args []Value) Value {
		name := m.mustGoString(args[0], "nondet name")
		n := m.constInt(args[1].(*Term), "BytesTail n")
		tail := m.constInt(args[2].(*Term), "BytesTail tail")
		ts := make([]*Term, n+tail)
		for i := range ts {
			if int64(i) < n {
				ts[i] = m.freshVar(fmt.Sprintf("%s_%d", name, i), 8, "u8").(*Term)
			} else {
				ts[i] = m.st.Const(8, 0)
			}
		}
		p := m.newBytes(ts, "input-bytes "+name)
		o := m.w.W(p.ID)
		for i := n; i < n+tail; i++ {
			o.slots[i] = Slot{kind: slotPoison}
		}
		return SliceVal{P: p, Len: n, Cap: n + tail}
	}
	I[vrtPkg+"Measure"] = func(m *Machine, fn *ssa.Function, args []Value) Value {
		return m.callValue(args[0], nil)
	}
	I[vrtPkg+"NativeOnly"] = func(m *Machine, fn *ssa.Function, args []Value) Value { return nil }
	I[vrtPkg+"String"] = func(m *Machine, fn *ssa.Function, args []Value) Value {
		name := m.mustGoString(args[0], "nondet name")
		n := m.constInt(args[1].(*Term), "String n")
		if n == 0 {
			return StringVal{}
		}
		ts := make([]*Term, n)
		for i := range ts {
			ts[i] = m.freshVar(fmt.Sprintf("%s_%d", name, i), 8, "u8").(*Term)
		}
		p := m.newBytes(ts, "nondet-string "+name)
		m.w.R(p.ID).ro = true
		return StringVal{P: p, Len: n}
	}
	I[vrtPkg+"Assume"] = func(m *Machine, fn *ssa.Function, args []Value) Value {
		m.assume(args[0].(*Term))
		return nil
	}
	I[vrtPkg+"Assert"] = func(m *Machine, fn *ssa.Function, args []Value) Value {
		label := m.mustGoString(args[0], "assert label")
		m.check(label, args[1].(*Term))
		return nil
	}
	I[vrtPkg+"And"] = func(m *Machine, fn *ssa.Function, args []Value) Value {
		return m.st.BAnd(args[0].(*Term), args[1].(*Term))
	}
	I[vrtPkg+"Or"] = func(m *Machine, fn *ssa.Function, args []Value) Value {
		return m.st.BOr(args[0].(*Term), args[1].(*Term))
	}
	I[vrtPkg+"Implies"] = func(m *Machine, fn *ssa.Function, args []Value) Value {
		return m.st.BOr(m.st.BNot(args[0].(*Term)), args[1].(*Term))
	}
	I[vrtPkg+"IteU64"] = func(m *Machine, fn *ssa.Function, args []Value) Value {
		return m.st.Ite(args[0].(*Term), args[1].(*Term), args[2].(*Term))
	}
	I[vrtPkg+"IteInt"] = I[vrtPkg+"IteU64"]
	I[vrtPkg+"BytesEq"] = func(m *Machine, fn *ssa.Function, args []Value) Value {
		a, b := args[0].(SliceVal), args[1].(SliceVal)
		return m.stringEq(StringVal{P: a.P, Len: a.Len}, StringVal{P: b.P, Len: b.Len})
	}
	I[vrtPkg+"Observe"] = func(m *Machine, fn *ssa.Function, args []Value) Value {
		label := m.mustGoString(args[0], "observe label")
		m.events = append(m.events, Event{Kind: "observe", Label: label, T: []*Term{args[1].(*Term)}})
		return nil
	}
	I[vrtPkg+"ObserveBytes"] = func(m *Machine, fn *ssa.Function, args []Value) Value {
		label := m.mustGoString(args[0], "observe label")
		s := args[1].(SliceVal)
		m.events = append(m.events, Event{Kind: "observe", Label: label, T: m.bytesOf(s.P, s.Len)})
		return nil
	}
	I[vrtPkg+"ObserveString"] = func(m *Machine, fn *ssa.Function, args []Value) Value {
		label := m.mustGoString(args[0], "observe label")
		s := args[1].(StringVal)
		m.events = append(m.events, Event{Kind: "observe", Label: label, T: m.bytesOf(s.P, s.Len)})
		return nil
	}
	I[vrtPkg+"Cover"] = func(m *Machine, fn *ssa.Function, args []Value) Value {
		label := m.mustGoString(args[0], "cover label")
		m.events = append(m.events, Event{Kind: "cover", Label: label})
		return nil
	}
	I[vrtPkg+"LoopBound"] = func(m *Machine, fn *ssa.Function, args []Value) Value {
		m.loopBound = int(m.constInt(args[0].(*Term), "LoopBound"))
		return nil
	}
	I[vrtPkg+"StepLimit"] = func(m *Machine, fn *ssa.Function, args []Value) Value {
		m.stepLimit = m.constInt(args[0].(*Term), "StepLimit")
		return nil
	}
	I[vrtPkg+"AllocBudget"] = func(m *Machine, fn *ssa.Function, args []Value) Value {
		m.allocBudget = m.constInt(args[0].(*Term), "AllocBudget")
		return nil
	}
	I[vrtPkg+"MapOrder"] = func(m *Machine, fn *ssa.Function, args []Value) Value {
		m.mapOrderFork = args[0].(*Term).IsTrue()
		return nil
	}
	I[vrtPkg+"SameBacking"] = func(m *Machine, fn *ssa.Function, args []Value) Value {
		// do two byte slices share a heap object?
		a, b := args[0].(SliceVal), args[1].(SliceVal)
		return m.st.Bool(a.P.ID != 0 && a.P.ID == b.P.ID)
	}
	I[vrtPkg+"StringSharesBytes"] = func(m *Machine, fn *ssa.Function, args []Value) Value {
		a, b := args[0].(StringVal), args[1].(SliceVal)
		return m.st.Bool(a.P.ID != 0 && a.P.ID == b.P.ID)
	}
	I[vrtPkg+"Thorough"] = func(m *Machine, fn *ssa.Function, args []Value) Value {
		return m.st.Bool(m.P.opts.Tier == "thorough" && !m.P.opts.ForceQuick)
	}
	I[vrtPkg+"Mid"] = func(m *Machine, fn *ssa.Function, args []Value) Value {
		return m.st.Bool(m.P.opts.Tier == "thorough" && !m.P.opts.ForceQuick && m.P.opts.Mid)
	}
	I[vrtPkg+"Variant"] = func(m *Machine, fn *ssa.Function, args []Value) Value {
		n := m.constInt(args[0].(*Term), "Variant n")
		if int64(m.P.opts.Variant) >= n {
			m.end("novariant", "variant %d of %d", m.P.opts.Variant, n)
		}
		m.nondets = append(m.nondets, NondetRec{Name: "variant", Kind: "variant", Val: int64(m.P.opts.Variant)})
		return m.st.Const(64, uint64(m.P.opts.Variant))
	}
	I[vrtPkg+"Symbolic"] = func(m *Machine, fn *ssa.Function, args []Value) Value {
		return m.st.True
	}

	// ---------------- fmt / errors / strconv leaves ----------------
	mkErr := func(m *Machine, msg string) Value {
		T := m.P.errorStringPtr
		o := m.w.Alloc(sizeof(T.(*types.Pointer).Elem()), "error")
		p := Ptr{ID: o.id}
		m.Store(types.Typ[types.String], p, m.constString(msg))
		return IfaceVal{T: T, V: p}
	}
	I["fmt.Errorf"] = func(m *Machine, fn *ssa.Function, args []Value) Value {
		f, _ := m.goString(args[0].(StringVal))
		return mkErr(m, "fmt.Errorf: "+f)
	}
	I["fmt.Sprintf"] = func(m *Machine, fn *ssa.Function, args []Value) Value {
		f := m.mustGoString(args[0], "format")
		va := args[1].(SliceVal)
		anyT := types.NewInterfaceType(nil, nil)
		var goArgs []interface{}
		for i := int64(0); i < va.Len; i++ {
			iv := m.Load(anyT, Ptr{ID: va.P.ID, Off: va.P.Off + 16*i}).(IfaceVal)
			goArgs = append(goArgs, m.toNative(iv))
		}
		return m.constString(fmt.Sprintf(f, goArgs...))
	}
	I["fmt.Sprint"] = func(m *Machine, fn *ssa.Function, args []Value) Value {
		va := args[0].(SliceVal)
		anyT := types.NewInterfaceType(nil, nil)
		var goArgs []interface{}
		for i := int64(0); i < va.Len; i++ {
			iv := m.Load(anyT, Ptr{ID: va.P.ID, Off: va.P.Off + 16*i}).(IfaceVal)
			goArgs = append(goArgs, m.toNative(iv))
		}
		return m.constString(fmt.Sprint(goArgs...))
	}
	I["errors.Is"] = func(m *Machine, fn *ssa.Function, args []Value) Value {
		errT := types.Universe.Lookup("error").Type()
		a, b := args[0].(IfaceVal), args[1].(IfaceVal)
		if a.T == nil || b.T == nil {
			return m.st.Bool(a.T == nil && b.T == nil)
		}
		if types.Identical(a.T, b.T) && types.Comparable(a.T) {
			return m.eqValues(errT, a, b)
		}
		return m.st.False
	}
	I["runtime.KeepAlive"] = func(m *Machine, fn *ssa.Function, args []Value) Value { return nil }
	I["runtime.GC"] = func(m *Machine, fn *ssa.Function, args []Value) Value { return nil }
	I["fmt.Println"] = func(m *Machine, fn *ssa.Function, args []Value) Value {
		return TupleVal{m.st.Const(64, 0), IfaceVal{}}
	}
	I["fmt.Printf"] = I["fmt.Println"]
	numErr := func(m *Machine, fn *ssa.Function, args []Value) Value {
		o := m.w.Alloc(sizeof(m.P.numErrorT), "strconv.NumError")
		return Ptr{ID: o.id}
	}
	I["strconv.syntaxError"] = numErr
	I["strconv.rangeError"] = numErr
	I["strconv.baseError"] = numErr
	I["strconv.bitSizeError"] = numErr
	I["internal/stringslite.Clone"] = func(m *Machine, fn *ssa.Function, args []Value) Value {
		// a fresh copy (Clone's whole point): the result must not alias its argument
		sv := args[0].(StringVal)
		if sv.Len == 0 {
			return StringVal{}
		}
		return StringVal{P: m.newBytes(m.bytesOf(sv.P, sv.Len), "strings.Clone"), Len: sv.Len}
	}
	I["strings.Clone"] = I["internal/stringslite.Clone"]

	I["internal/bytealg.IndexByteString"] = func(m *Machine, fn *ssa.Function, args []Value) Value {
		s := args[0].(StringVal)
		c := args[1].(*Term)
		for i, b := range m.bytesOf(s.P, s.Len) {
			if m.branch(m.st.Eq(b, c)) {
				return m.st.Const(64, uint64(i))
			}
		}
		return m.st.Const(64, ^uint64(0))
	}
	I["internal/bytealg.IndexByte"] = func(m *Machine, fn *ssa.Function, args []Value) Value {
		s := args[0].(SliceVal)
		c := args[1].(*Term)
		for i, b := range m.bytesOf(s.P, s.Len) {
			if m.branch(m.st.Eq(b, c)) {
				return m.st.Const(64, uint64(i))
			}
		}
		return m.st.Const(64, ^uint64(0))
	}
	I["internal/bytealg.CountString"] = func(m *Machine, fn *ssa.Function, args []Value) Value {
		s := args[0].(StringVal)
		c := args[1].(*Term)
		n := 0
		for _, b := range m.bytesOf(s.P, s.Len) {
			if m.branch(m.st.Eq(b, c)) {
				n++
			}
		}
		return m.st.Const(64, uint64(n))
	}
	I["internal/bytealg.Equal"] = func(m *Machine, fn *ssa.Function, args []Value) Value {
		a, b := args[0].(SliceVal), args[1].(SliceVal)
		return m.stringEq(StringVal{P: a.P, Len: a.Len}, StringVal{P: b.P, Len: b.Len})
	}
	I["bytes.Equal"] = I["internal/bytealg.Equal"]
	I["unicode.IsLower"] = func(m *Machine, fn *ssa.Function, args []Value) Value {
		r := args[0].(*Term)
		if r.IsConst() {
			return m.st.Bool(unicode.IsLower(rune(r.SVal())))
		}
		// stated bound: symbolic names are ASCII
		m.assume(m.st.Ult(r, m.st.Const(32, 0x80)))
		return m.st.BAnd(m.st.Ule(m.st.Const(32, 'a'), r), m.st.Ule(r, m.st.Const(32, 'z')))
	}
	I["unicode.IsUpper"] = func(m *Machine, fn *ssa.Function, args []Value) Value {
		r := args[0].(*Term)
		if r.IsConst() {
			return m.st.Bool(unicode.IsUpper(rune(r.SVal())))
		}
		m.assume(m.st.Ult(r, m.st.Const(32, 0x80)))
		return m.st.BAnd(m.st.Ule(m.st.Const(32, 'A'), r), m.st.Ule(r, m.st.Const(32, 'Z')))
	}
	// assembly leaves of package math (no Go body on amd64): computed on
	// constants; a symbolic argument is sampled (see sampleFloat)
	mathLeaf := func(f func(float64) float64) func(m *Machine, fn *ssa.Function, args []Value) Value {
		return func(m *Machine, fn *ssa.Function, args []Value) Value {
			x := m.sampleFloat(args[0].(*Term), "argument of "+fn.Name())
			return m.st.Const(64, math.Float64bits(f(math.Float64frombits(x.K))))
		}
	}
	I["math.archFloor"] = mathLeaf(math.Floor)
	I["math.archCeil"] = mathLeaf(math.Ceil)
	I["math.archTrunc"] = mathLeaf(math.Trunc)
	I["math.archSqrt"] = mathLeaf(math.Sqrt)
	I["math.archExp"] = mathLeaf(math.Exp)
	I["math.archLog"] = mathLeaf(math.Log)
	mathLeaf2 := func(f func(a, b float64) float64) func(m *Machine, fn *ssa.Function, args []Value) Value {
		return func(m *Machine, fn *ssa.Function, args []Value) Value {
			x := m.sampleFloat(args[0].(*Term), "argument of "+fn.Name())
			y := m.sampleFloat(args[1].(*Term), "argument of "+fn.Name())
			return m.st.Const(64, math.Float64bits(f(math.Float64frombits(x.K), math.Float64frombits(y.K))))
		}
	}
	I["math.archMax"] = mathLeaf2(math.Max)
	I["math.archMin"] = mathLeaf2(math.Min)
	I["math.archHypot"] = mathLeaf2(math.Hypot)
	I["math/bits.Len64"] = func(m *Machine, fn *ssa.Function, args []Value) Value {
		x := args[0].(*Term)
		res := m.st.Const(64, 0)
		for i := 0; i < 64; i++ {
			// if bit i set (scanning upward) result = i+1
			bit := m.st.Ne(m.st.BV(OpAnd, x, m.st.Const(64, uint64(1)<<uint(i))), m.st.Const(64, 0))
			res = m.st.Ite(bit, m.st.Const(64, uint64(i+1)), res)
		}
		return res
	}
	I["math/bits.Len"] = I["math/bits.Len64"]
	I["math/bits.Len32"] = func(m *Machine, fn *ssa.Function, args []Value) Value {
		x := args[0].(*Term)
		res := m.st.Const(64, 0)
		for i := 0; i < 32; i++ {
			bit := m.st.Ne(m.st.BV(OpAnd, x, m.st.Const(32, uint64(1)<<uint(i))), m.st.Const(32, 0))
			res = m.st.Ite(bit, m.st.Const(64, uint64(i+1)), res)
		}
		return res
	}

	// ---------------- sync ----------------
	I["(*sync.Mutex).Lock"] = func(m *Machine, fn *ssa.Function, args []Value) Value {
		p := m.ptrOperand(args[0])
		if p.ID == 0 {
			m.raise(fault("nil-deref", "Lock on nil mutex"))
		}
		if f, ok := m.w.AuxR(p).(*flagAux); ok && f.on {
			m.raise(fault("deadlock", "sync.Mutex locked twice on one goroutine"))
		}
		m.w.SetAux(p, &flagAux{on: true})
		return nil
	}
	I["(*sync.Mutex).Unlock"] = func(m *Machine, fn *ssa.Function, args []Value) Value {
		p := m.ptrOperand(args[0])
		if f, ok := m.w.AuxR(p).(*flagAux); !ok || !f.on {
			m.raise(fault("panic", "sync: unlock of unlocked mutex"))
		}
		m.w.SetAux(p, &flagAux{on: false})
		return nil
	}
	I["(*sync.RWMutex).Lock"] = I["(*sync.Mutex).Lock"]
	I["(*sync.RWMutex).Unlock"] = I["(*sync.Mutex).Unlock"]
	I["(*sync.RWMutex).RLock"] = func(m *Machine, fn *ssa.Function, args []Value) Value { return nil }
	I["(*sync.RWMutex).RUnlock"] = I["(*sync.RWMutex).RLock"]
	anyT := types.NewInterfaceType(nil, nil)
	smap := func(m *Machine, recv Value, write bool) (*syncMapAux, Ptr) {
		p := m.ptrOperand(recv)
		if p.ID == 0 {
			m.raise(fault("nil-deref", "sync.Map method on nil"))
		}
		if write {
			if a, ok := m.w.AuxW(p).(*syncMapAux); ok {
				return a, p
			}
			a := &syncMapAux{}
			m.w.SetAux(p, a)
			return a, p
		}
		a, _ := m.w.AuxR(p).(*syncMapAux)
		return a, p
	}
	sfind := func(m *Machine, a *syncMapAux, key Value) int {
		if a == nil {
			return -1
		}
		for i, k := range a.keys {
			if m.branch(m.eqValues(anyT, k, key)) {
				return i
			}
		}
		return -1
	}
	I["(*sync.Map).Load"] = func(m *Machine, fn *ssa.Function, args []Value) Value {
		a, _ := smap(m, args[0], false)
		if i := sfind(m, a, args[1]); i >= 0 {
			return TupleVal{a.vals[i], m.st.True}
		}
		return TupleVal{IfaceVal{}, m.st.False}
	}
	I["(*sync.Map).Store"] = func(m *Machine, fn *ssa.Function, args []Value) Value {
		a, _ := smap(m, args[0], true)
		if i := sfind(m, a, args[1]); i >= 0 {
			a.vals[i] = args[2]
			return nil
		}
		a.keys = append(a.keys, args[1])
		a.vals = append(a.vals, args[2])
		return nil
	}
	I["(*sync.Map).LoadOrStore"] = func(m *Machine, fn *ssa.Function, args []Value) Value {
		a, _ := smap(m, args[0], true)
		if i := sfind(m, a, args[1]); i >= 0 {
			return TupleVal{a.vals[i], m.st.True}
		}
		a.keys = append(a.keys, args[1])
		a.vals = append(a.vals, args[2])
		return TupleVal{args[2], m.st.False}
	}
	I["(*sync.Pool).Get"] = func(m *Machine, fn *ssa.Function, args []Value) Value {
		p := m.ptrOperand(args[0])
		if a, ok := m.w.AuxR(p).(*poolAux); ok && len(a.items) > 0 {
			a = m.w.AuxW(p).(*poolAux)
			v := a.items[len(a.items)-1]
			a.items = a.items[:len(a.items)-1]
			return v
		}
		// New field
		st := fn.Signature.Recv().Type().Underlying().(*types.Pointer).Elem().Underlying().(*types.Struct)
		offs := fieldOffsets(st)
		for i := 0; i < st.NumFields(); i++ {
			if st.Field(i).Name() == "New" {
				fv := m.readWord(Ptr{ID: p.ID, Off: p.Off + offs[i]})
				if isNilPV(fv) {
					return IfaceVal{}
				}
				return m.callValue(fv, nil)
			}
		}
		return IfaceVal{}
	}
	I["(*sync.Pool).Put"] = func(m *Machine, fn *ssa.Function, args []Value) Value {
		p := m.ptrOperand(args[0])
		a, ok := m.w.AuxW(p).(*poolAux)
		if !ok {
			a = &poolAux{}
			m.w.SetAux(p, a)
		}
		if iv, ok := args[1].(IfaceVal); ok && iv.T == nil {
			return nil
		}
		a.items = append(a.items, args[1])
		return nil
	}
	I["sync/atomic.LoadPointer"] = func(m *Machine, fn *ssa.Function, args []Value) Value {
		return m.readWord(m.ptrOperand(args[0]))
	}
	I["sync/atomic.StorePointer"] = func(m *Machine, fn *ssa.Function, args []Value) Value {
		m.writeWord(m.ptrOperand(args[0]), args[1])
		return nil
	}

	// ---------------- sort (reflection-based helpers) ----------------
	sliceArg := func(m *Machine, v Value) (SliceVal, int64) {
		iv := v.(IfaceVal)
		st, ok := iv.T.Underlying().(*types.Slice)
		if !ok {
			m.raise(fault("panic", "sort: argument is not a slice"))
		}
		return iv.V.(SliceVal), sizeof(st.Elem())
	}
	lessAt := func(m *Machine, less Value, i, j int64) bool {
		r := m.callValue(less, []Value{m.st.Const(64, uint64(i)), m.st.Const(64, uint64(j))})
		return m.branch(r.(*Term))
	}
	I["sort.SliceIsSorted"] = func(m *Machine, fn *ssa.Function, args []Value) Value {
		s, _ := sliceArg(m, args[0])
		for i := s.Len - 1; i > 0; i-- {
			if lessAt(m, args[1], i, i-1) {
				return m.st.False
			}
		}
		return m.st.True
	}
	sortSlice := func(m *Machine, fn *ssa.Function, args []Value) Value {
		s, es := sliceArg(m, args[0])
		if es == 0 {
			return nil
		}
		tmp := m.w.Alloc(es, "sort-swap")
		tp := Ptr{ID: tmp.id}
		at := func(i int64) Ptr { return Ptr{ID: s.P.ID, Off: s.P.Off + i*es} }
		// insertion sort (stable), swapping adjacent elements in place
		for i := int64(1); i < s.Len; i++ {
			for j := i; j > 0 && lessAt(m, args[1], j, j-1); j-- {
				m.copyBytes(tp, at(j), es)
				m.copyBytes(at(j), at(j-1), es)
				m.copyBytes(at(j-1), tp, es)
			}
		}
		return nil
	}
	I["sort.Slice"] = sortSlice
	I["sort.SliceStable"] = sortSlice

	// ---------------- sync/atomic (sequential executor: plain loads and stores) ----------------
	for _, w := range []struct {
		suffix string
		size   int64
	}{{"Int32", 4}, {"Uint32", 4}, {"Int64", 8}, {"Uint64", 8}, {"Uintptr", 8}} {
		size := w.size
		I["sync/atomic.Load"+w.suffix] = func(m *Machine, fn *ssa.Function, args []Value) Value {
			return m.readScalar(m.ptrOperand(args[0]), size)
		}
		I["sync/atomic.Store"+w.suffix] = func(m *Machine, fn *ssa.Function, args []Value) Value {
			m.writeScalar(m.ptrOperand(args[0]), size, args[1].(*Term))
			return nil
		}
		I["sync/atomic.Add"+w.suffix] = func(m *Machine, fn *ssa.Function, args []Value) Value {
			p := m.ptrOperand(args[0])
			v := m.st.BV(OpAdd, m.readScalar(p, size), args[1].(*Term))
			m.writeScalar(p, size, v)
			return v
		}
		I["sync/atomic.Swap"+w.suffix] = func(m *Machine, fn *ssa.Function, args []Value) Value {
			p := m.ptrOperand(args[0])
			old := m.readScalar(p, size)
			m.writeScalar(p, size, args[1].(*Term))
			return old
		}
		I["sync/atomic.CompareAndSwap"+w.suffix] = func(m *Machine, fn *ssa.Function, args []Value) Value {
			p := m.ptrOperand(args[0])
			cur := m.readScalar(p, size)
			if m.branch(m.st.Eq(cur, args[1].(*Term))) {
				m.writeScalar(p, size, args[2].(*Term))
				return m.st.True
			}
			return m.st.False
		}
	}
	I["sync/atomic.SwapPointer"] = func(m *Machine, fn *ssa.Function, args []Value) Value {
		p := m.ptrOperand(args[0])
		old := m.readWord(p)
		m.writeWord(p, args[1])
		return old
	}
	I["sync/atomic.CompareAndSwapPointer"] = func(m *Machine, fn *ssa.Function, args []Value) Value {
		p := m.ptrOperand(args[0])
		cur := m.readWord(p)
		same := (isNilPV(cur) && isNilPV(args[1]))
		if cp, ok := cur.(Ptr); ok {
			if ap, ok2 := args[1].(Ptr); ok2 {
				same = ptrEq(cp, ap)
			}
		}
		if same {
			m.writeWord(p, args[2])
			return m.st.True
		}
		return m.st.False
	}
	noop := func(m *Machine, fn *ssa.Function, args []Value) Value { return nil }
	I["sync/atomic.runtime_procPin"] = func(m *Machine, fn *ssa.Function, args []Value) Value { return m.st.Const(64, 0) }
	I["sync/atomic.runtime_procUnpin"] = noop
	I["sync.runtime_procPin"] = I["sync/atomic.runtime_procPin"]
	I["sync.runtime_procUnpin"] = noop
	I["(*sync.Once).Do"] = func(m *Machine, fn *ssa.Function, args []Value) Value {
		p := m.ptrOperand(args[0])
		if f, ok := m.w.AuxR(p).(*flagAux); ok && f.on {
			return nil
		}
		m.w.SetAux(p, &flagAux{on: true})
		m.callValue(args[1], nil)
		return nil
	}
	I["(*sync.WaitGroup).Add"] = noop
	I["(*sync.WaitGroup).Done"] = noop
	I["(*sync.WaitGroup).Wait"] = noop

	// ---------------- runtime linknames used by plenccodec ----------------
	tokType := func(m *Machine, v Value, what string) types.Type {
		tt, ok := v.(TypeTok)
		if !ok {
			m.raise(fault("type-confusion", "%s: type descriptor argument is %T", what, v))
		}
		return tt.T
	}
	I[codecPkg+"unsafe_NewArray"] = func(m *Machine, fn *ssa.Function, args []Value) Value {
		T := tokType(m, args[0], "unsafe_NewArray")
		n := args[1].(*Term)
		es := sizeof(T)
		m.checkAllocCount(n, es, "unsafe_NewArray", true)
		c := m.concretize(n, 0, 1<<30, "unsafe_NewArray length")
		o := m.w.Alloc(c*es, "array of "+T.String())
		return Ptr{ID: o.id}
	}
	I[codecPkg+"typedmemclr"] = func(m *Machine, fn *ssa.Function, args []Value) Value {
		T := tokType(m, args[0], "typedmemclr")
		p := m.ptrOperand(args[1])
		n := sizeof(T)
		if n == 0 {
			return nil
		}
		o := m.wobj(p, n, "typedmemclr")
		m.clearRange(o, p.Off, n)
		return nil
	}
	I[codecPkg+"typedmemmove"] = func(m *Machine, fn *ssa.Function, args []Value) Value {
		T := tokType(m, args[0], "typedmemmove")
		m.copyBytes(m.ptrOperand(args[1]), m.ptrOperand(args[2]), sizeof(T))
		return nil
	}
	I[codecPkg+"typedslicecopy"] = func(m *Machine, fn *ssa.Function, args []Value) Value {
		T := tokType(m, args[0], "typedslicecopy")
		d, s := args[1].(StructVal), args[2].(StructVal)
		dl := m.constInt(d[1].(*Term), "slice len")
		sl := m.constInt(s[1].(*Term), "slice len")
		n := dl
		if sl < n {
			n = sl
		}
		if n > 0 {
			m.copyBytes(m.ptrOperand(d[0]), m.ptrOperand(s[0]), n*sizeof(T))
		}
		return m.st.Const(64, uint64(n))
	}
	I[codecPkg+"mapassign"] = func(m *Machine, fn *ssa.Function, args []Value) Value {
		T := tokType(m, args[0], "mapassign")
		mt, ok := T.Underlying().(*types.Map)
		if !ok {
			m.raise(fault("type-confusion", "mapassign with non-map type %s", T))
		}
		d := m.mapData(args[1], false)
		if d == nil {
			m.raise(fault("nil-map-write", "assignment to entry in nil map"))
		}
		if !types.Identical(d.KT, mt.Key()) || !types.Identical(d.VT, mt.Elem()) {
			m.raise(fault("type-confusion", "mapassign on map of different type"))
		}
		key := m.Load(mt.Key(), m.ptrOperand(args[2]))
		return m.mapAssign(args[1], key)
	}
	// mapaccess(typ, hmap, key) -> pointer to the value or nil (a linkname a
	// refactoring might add next to mapassign)
	I[codecPkg+"mapaccess"] = func(m *Machine, fn *ssa.Function, args []Value) Value {
		T := tokType(m, args[0], "mapaccess")
		mt, ok := T.Underlying().(*types.Map)
		if !ok {
			m.raise(fault("type-confusion", "mapaccess with non-map type %s", T))
		}
		d := m.mapData(args[1], false)
		if d == nil {
			return Ptr{}
		}
		key := m.Load(mt.Key(), m.ptrOperand(args[2]))
		i := m.mapFind(d, key)
		if i < 0 {
			return Ptr{}
		}
		return Ptr{ID: d.Entries[i].V}
	}
	I[codecPkg+"maplen"] = func(m *Machine, fn *ssa.Function, args []Value) Value {
		return m.st.Const(64, uint64(m.mapLen(args[0])))
	}
	I[codecPkg+"mapiterinit"] = func(m *Machine, fn *ssa.Function, args []Value) Value {
		it := &IterState{Map: args[1]}
		if d := m.mapData(args[1], false); d != nil {
			it.Order = m.iterOrder(d)
		}
		m.w.SetAux(m.ptrOperand(args[2]), it)
		return nil
	}
	iterCur := func(m *Machine, v Value) (*IterState, *MapEntry) {
		it, ok := m.w.AuxR(m.ptrOperand(v)).(*IterState)
		if !ok {
			m.raise(fault("type-confusion", "map iterator not initialised"))
		}
		if it.Pos >= len(it.Order) {
			return it, nil
		}
		return it, &it.Order[it.Pos]
	}
	I[codecPkg+"mapiterkey"] = func(m *Machine, fn *ssa.Function, args []Value) Value {
		_, e := iterCur(m, args[0])
		if e == nil {
			return Ptr{}
		}
		return Ptr{ID: e.K}
	}
	I[codecPkg+"mapiterelem"] = func(m *Machine, fn *ssa.Function, args []Value) Value {
		_, e := iterCur(m, args[0])
		if e == nil {
			return Ptr{}
		}
		return Ptr{ID: e.V}
	}
	I[codecPkg+"mapiternext"] = func(m *Machine, fn *ssa.Function, args []Value) Value {
		p := m.ptrOperand(args[0])
		it, ok := m.w.AuxW(p).(*IterState)
		if !ok {
			m.raise(fault("type-confusion", "map iterator not initialised"))
		}
		it.Pos++
		return nil
	}

	registerReflect(P)
	registerSynth(P)
}

type flagAux struct{ on bool }

func (f *flagAux) CloneAux() Aux { n := *f; return &n }

type syncMapAux struct{ keys, vals []Value }

func (a *syncMapAux) CloneAux() Aux {
	return &syncMapAux{keys: append([]Value{}, a.keys...), vals: append([]Value{}, a.vals...)}
}

type poolAux struct{ items []Value }

func (a *poolAux) CloneAux() Aux { return &poolAux{items: append([]Value{}, a.items...)} }

func (m *Machine) freshVar(name string, w uint8, kind string) Value {
	n := m.nameCount[name]
	m.nameCount[name] = n + 1
	full := name
	if n > 0 {
		full = fmt.Sprintf("%s~%d", name, n)
	}
	v := m.st.Var(full, w)
	m.nondets = append(m.nondets, NondetRec{Name: full, Kind: kind, W: w, Var: v})
	return v
}

// toNative converts a concrete value to a Go value for fmt.
func (m *Machine) toNative(iv IfaceVal) interface{} {
	if iv.T == nil {
		return nil
	}
	switch v := iv.V.(type) {
	case *Term:
		if !v.IsConst() {
			return "<sym>"
		}
		if v.W == 0 {
			return v.K != 0
		}
		if isSigned(iv.T) {
			return v.SVal()
		}
		return v.K
	case StringVal:
		s, ok := m.goString(v)
		if !ok {
			return "<sym>"
		}
		return s
	case TypeTok:
		return typeString(v.T)
	}
	return fmt.Sprintf("<%s>", iv.T)
}

// ---------------- reflect model ----------------

func kindOf(T types.Type) reflect.Kind {
	switch u := T.Underlying().(type) {
	case *types.Basic:
		switch u.Kind() {
		case types.Bool:
			return reflect.Bool
		case types.Int:
			return reflect.Int
		case types.Int8:
			return reflect.Int8
		case types.Int16:
			return reflect.Int16
		case types.Int32:
			return reflect.Int32
		case types.Int64:
			return reflect.Int64
		case types.Uint:
			return reflect.Uint
		case types.Uint8:
			return reflect.Uint8
		case types.Uint16:
			return reflect.Uint16
		case types.Uint32:
			return reflect.Uint32
		case types.Uint64:
			return reflect.Uint64
		case types.Uintptr:
			return reflect.Uintptr
		case types.Float32:
			return reflect.Float32
		case types.Float64:
			return reflect.Float64
		case types.Complex64:
			return reflect.Complex64
		case types.Complex128:
			return reflect.Complex128
		case types.String:
			return reflect.String
		case types.UnsafePointer:
			return reflect.UnsafePointer
		}
	case *types.Array:
		return reflect.Array
	case *types.Chan:
		return reflect.Chan
	case *types.Signature:
		return reflect.Func
	case *types.Interface:
		return reflect.Interface
	case *types.Map:
		return reflect.Map
	case *types.Pointer:
		return reflect.Ptr
	case *types.Slice:
		return reflect.Slice
	case *types.Struct:
		return reflect.Struct
	}
	return reflect.Invalid
}

func typeString(T types.Type) string {
	return types.TypeString(T, func(p *types.Package) string { return p.Name() })
}

func typeName(T types.Type) string {
	switch t := T.(type) {
	case *types.Named:
		n := t.Obj().Name()
		if ta := t.TypeArgs(); ta != nil && ta.Len() > 0 {
			var parts []string
			for i := 0; i < ta.Len(); i++ {
				parts = append(parts, types.TypeString(ta.At(i), func(p *types.Package) string { return p.Path() }))
			}
			n += "[" + strings.Join(parts, ",") + "]"
		}
		return n
	case *types.Basic:
		return t.Name()
	case *types.Alias:
		return typeName(types.Unalias(t))
	}
	return ""
}

func (m *Machine) typeIface(T types.Type) Value {
	return IfaceVal{T: m.P.rtypePtr, V: TypeTok{T}}
}

func (P *Program) invokeIntrinsic(m *Machine, T types.Type, name string) func(m *Machine, args []Value) Value {
	if P.rtypePtr == nil || !types.Identical(T, P.rtypePtr) {
		return nil
	}
	return func(m *Machine, args []Value) Value {
		tt, ok := args[0].(TypeTok)
		if !ok {
			m.raise(fault("type-confusion", "reflect.Type method %s on %T", name, args[0]))
		}
		return m.reflectTypeMethod(tt.T, name, args[1:])
	}
}

func (m *Machine) reflectTypeMethod(T types.Type, name string, args []Value) Value {
	if st, ok := T.(*SynthStruct); ok {
		return m.synthTypeMethod(st, name, args)
	}
	switch name {
	case "Kind":
		return m.st.Const(64, uint64(kindOf(T)))
	case "Name":
		return m.constString(typeName(T))
	case "String":
		return m.constString(typeString(T))
	case "PkgPath":
		if n, ok := T.(*types.Named); ok && n.Obj().Pkg() != nil {
			return m.constString(n.Obj().Pkg().Path())
		}
		return StringVal{}
	case "Size":
		return m.st.Const(64, uint64(sizeof(T)))
	case "Elem":
		switch u := T.Underlying().(type) {
		case *types.Pointer:
			return m.typeIface(u.Elem())
		case *types.Slice:
			return m.typeIface(u.Elem())
		case *types.Array:
			return m.typeIface(u.Elem())
		case *types.Map:
			return m.typeIface(u.Elem())
		case *types.Chan:
			return m.typeIface(u.Elem())
		}
		m.raise(fault("panic", "reflect: Elem of invalid type %s", T))
	case "Key":
		if u, ok := T.Underlying().(*types.Map); ok {
			return m.typeIface(u.Key())
		}
		m.raise(fault("panic", "reflect: Key of non-map type %s", T))
	case "Len":
		if u, ok := T.Underlying().(*types.Array); ok {
			return m.st.Const(64, uint64(u.Len()))
		}
		m.raise(fault("panic", "reflect: Len of non-array type %s", T))
	case "NumField":
		if u, ok := T.Underlying().(*types.Struct); ok {
			return m.st.Const(64, uint64(u.NumFields()))
		}
		m.raise(fault("panic", "reflect: NumField of non-struct type %s", T))
	case "Field":
		u, ok := T.Underlying().(*types.Struct)
		if !ok {
			m.raise(fault("panic", "reflect: Field of non-struct type %s", T))
		}
		i := m.constInt(args[0].(*Term), "Field index")
		if i < 0 || i >= int64(u.NumFields()) {
			m.raise(fault("panic", "reflect: Field index out of bounds"))
		}
		f := u.Field(int(i))
		pkgPath := ""
		if !f.Exported() && f.Pkg() != nil {
			pkgPath = f.Pkg().Path()
		}
		return m.structFieldValue(f.Name(), pkgPath, f.Type(), m.constString(u.Tag(int(i))), fieldOffsets(u)[i], int(i), f.Embedded())
	case "Comparable":
		return m.st.Bool(types.Comparable(T))
	}
	m.unsupported("reflect.Type.%s", name)
	return nil
}

// structFieldValue builds a reflect.StructField in the field order of the
// loaded reflect package.
func (m *Machine) structFieldValue(name, pkgPath string, T types.Type, tag Value, off int64, idx int, anon bool) Value {
	sfT := m.P.reflectPkg.Scope().Lookup("StructField").Type().Underlying().(*types.Struct)
	sv := make(StructVal, sfT.NumFields())
	for i := 0; i < sfT.NumFields(); i++ {
		switch sfT.Field(i).Name() {
		case "Name":
			sv[i] = m.constString(name)
		case "PkgPath":
			sv[i] = m.constString(pkgPath)
		case "Type":
			sv[i] = m.typeIface(T)
		case "Tag":
			sv[i] = tag
		case "Offset":
			sv[i] = m.st.Const(64, uint64(off))
		case "Index":
			o := m.w.Alloc(8, "StructField.Index")
			m.writeScalar(Ptr{ID: o.id}, 8, m.st.Const(64, uint64(idx)))
			sv[i] = SliceVal{P: Ptr{ID: o.id}, Len: 1, Cap: 1}
		case "Anonymous":
			sv[i] = m.st.Bool(anon)
		default:
			sv[i] = m.Zero(sfT.Field(i).Type())
		}
	}
	return sv
}

func registerReflect(P *Program) {
	I := P.intr
	I["reflect.TypeOf"] = func(m *Machine, fn *ssa.Function, args []Value) Value {
		iv := args[0].(IfaceVal)
		if iv.T == nil {
			return IfaceVal{}
		}
		return m.typeIface(iv.T)
	}
	I["reflect.ValueOf"] = func(m *Machine, fn *ssa.Function, args []Value) Value {
		iv := args[0].(IfaceVal)
		return ReflVal{T: iv.T, V: iv.V}
	}
	I["(reflect.Value).Kind"] = func(m *Machine, fn *ssa.Function, args []Value) Value {
		rv := args[0].(ReflVal)
		if rv.T == nil {
			return m.st.Const(64, 0)
		}
		return m.st.Const(64, uint64(kindOf(rv.T)))
	}
	I["(reflect.Value).IsNil"] = func(m *Machine, fn *ssa.Function, args []Value) Value {
		rv := args[0].(ReflVal)
		if rv.T == nil {
			m.raise(fault("panic", "reflect: call of reflect.Value.IsNil on zero Value"))
		}
		switch kindOf(rv.T) {
		case reflect.Ptr, reflect.Map, reflect.Chan, reflect.Func, reflect.UnsafePointer:
			return m.st.Bool(isNilPV(rv.V))
		case reflect.Slice:
			return m.st.Bool(rv.V.(SliceVal).P.ID == 0)
		case reflect.Interface:
			return m.st.Bool(rv.V.(IfaceVal).T == nil)
		}
		m.raise(fault("panic", "reflect: call of reflect.Value.IsNil on %s Value", rv.T))
		return nil
	}
	I["(reflect.Value).Type"] = func(m *Machine, fn *ssa.Function, args []Value) Value {
		rv := args[0].(ReflVal)
		if rv.T == nil {
			m.raise(fault("panic", "reflect: call of reflect.Value.Type on zero Value"))
		}
		return m.typeIface(rv.T)
	}
	I["(reflect.Value).Pointer"] = func(m *Machine, fn *ssa.Function, args []Value) Value {
		rv := args[0].(ReflVal)
		switch kindOf(rv.T) {
		case reflect.Ptr, reflect.Map, reflect.Chan, reflect.Func, reflect.UnsafePointer:
			if isNilPV(rv.V) {
				return m.st.Const(64, 0)
			}
			return rv.V
		case reflect.Slice:
			return rv.V.(SliceVal).P
		}
		m.raise(fault("panic", "reflect: call of reflect.Value.Pointer on %s Value", rv.T))
		return nil
	}
	I["reflect.PointerTo"] = func(m *Machine, fn *ssa.Function, args []Value) Value {
		tt := args[0].(IfaceVal).V.(TypeTok)
		return m.typeIface(types.NewPointer(tt.T))
	}
	I["reflect.PtrTo"] = I["reflect.PointerTo"]
	I["reflect.SliceOf"] = func(m *Machine, fn *ssa.Function, args []Value) Value {
		tt := args[0].(IfaceVal).V.(TypeTok)
		return m.typeIface(types.NewSlice(tt.T))
	}
	I["reflect.New"] = func(m *Machine, fn *ssa.Function, args []Value) Value {
		tt := args[0].(IfaceVal).V.(TypeTok)
		o := m.w.Alloc(sizeof(tt.T), "reflect.New "+typeString(tt.T))
		return ReflVal{T: types.NewPointer(tt.T), V: Ptr{ID: o.id}}
	}
	I["reflect.MakeMap"] = func(m *Machine, fn *ssa.Function, args []Value) Value {
		tt := args[0].(IfaceVal).V.(TypeTok)
		mt, ok := tt.T.Underlying().(*types.Map)
		if !ok {
			m.raise(fault("panic", "reflect.MakeMap of non-map type"))
		}
		return ReflVal{T: tt.T, V: m.newMap(mt)}
	}
	I["reflect.MakeMapWithSize"] = func(m *Machine, fn *ssa.Function, args []Value) Value {
		tt := args[0].(IfaceVal).V.(TypeTok)
		mt, ok := tt.T.Underlying().(*types.Map)
		if !ok {
			m.raise(fault("panic", "reflect.MakeMapWithSize of non-map type"))
		}
		n := args[1].(*Term)
		// the runtime ignores negative / overflowing hints but allocates
		// buckets for large positive ones
		m.checkAllocCount(n, sizeof(mt.Key())+sizeof(mt.Elem())+8, "reflect.MakeMapWithSize hint", false)
		return ReflVal{T: tt.T, V: m.newMap(mt)}
	}
	I["(reflect.StructTag).Get"] = func(m *Machine, fn *ssa.Function, args []Value) Value {
		if sv, ok := m.synthTagOf(args[0]); ok {
			key := m.mustGoString(args[1], "tag key")
			if v, ok := sv.Keys[key]; ok {
				return v
			}
			return StringVal{}
		}
		tag := m.mustGoString(args[0], "struct tag")
		key := m.mustGoString(args[1], "tag key")
		return m.constString(reflect.StructTag(tag).Get(key))
	}
	I["(reflect.StructTag).Lookup"] = func(m *Machine, fn *ssa.Function, args []Value) Value {
		tag := m.mustGoString(args[0], "struct tag")
		key := m.mustGoString(args[1], "tag key")
		v, ok := reflect.StructTag(tag).Lookup(key)
		return TupleVal{m.constString(v), m.st.Bool(ok)}
	}
}
