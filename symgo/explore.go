package main

// Path exploration by re-execution: a path is identified by its vector of
// decisions. A decision is a symbolic branch (0/1, feasibility decided by the
// solver), an enumerated choice (0..n-1) or a concretised value. New
// alternatives found on a path are pushed on the work list as prefixes.

import (
	"fmt"
	"math"
	"os"
	"sort"
	"strings"
	"sync"
	"time"
)

var dumped int

var (
	querySites   map[string]int
	querySitesMu sync.Mutex
)

func (m *Machine) addPC(c *Term) {
	if c.IsTrue() || m.pcSet[c] {
		return
	}
	m.pc = append(m.pc, c)
	if m.pcSet == nil {
		m.pcSet = map[*Term]bool{}
	}
	m.pcSet[c] = true
	m.recordFact(c)
	if m.lastModel != nil {
		if EvalTerm(c, m.lastModel, map[*Term]uint64{}) != 1 {
			m.lastModel = nil
		}
	}
}

func (m *Machine) syncSolver() {
	for ; m.asserted < len(m.pc); m.asserted++ {
		m.sol.Assert(m.pc[m.asserted])
	}
}

// feasible reports whether pc ∧ c is satisfiable; Unknown counts as feasible
// (over-approximation of the path set; verdicts still need a sat/unsat).
func (m *Machine) feasible(c *Term) (bool, Model, SatResult) {
	if c.IsFalse() {
		return false, nil, Unsat
	}
	// syntactic shortcut: the negation is already a conjunct of the path condition
	if m.pcSet[m.st.BNot(c)] {
		return false, nil, Unsat
	}
	if m.pcSet[c] {
		return true, m.lastModel, Sat
	}
	// interval facts implied by the path condition (sound, incomplete)
	switch m.implied(c) {
	case -1:
		m.rangeDecided++
		return false, nil, Unsat
	case 1:
		m.rangeDecided++
		return true, m.lastModel, Sat
	}
	if m.lastModel != nil && EvalTerm(c, m.lastModel, map[*Term]uint64{}) == 1 {
		return true, m.lastModel, Sat
	}
	m.syncSolver()
	m.queriesFeas++
	if querySites != nil {
		querySitesMu.Lock()
		querySites[m.site()]++
		if dq := os.Getenv("SYMGO_DUMPQ"); dq != "" && strings.Contains(m.site(), dq) && dumped < 6 {
			dumped++
			fmt.Printf("QUERY at %s: %s\n   pc:", m.site(), c.String())
			for _, p := range m.pc {
				fmt.Printf("\n      %s", p.String())
			}
			fmt.Println()
		}
		querySitesMu.Unlock()
	}
	r, model := m.sol.Check([]*Term{c}, true, m.st.Vars)
	switch r {
	case Sat:
		return true, model, Sat
	case Unsat:
		return false, nil, Unsat
	}
	m.unknowns++
	return true, nil, Unknown
}

// pushAlt records an unexplored alternative of the current decision together
// with a model known to satisfy the path condition of that alternative (nil if
// none is at hand); the path that takes it starts with that model, which
// usually saves one of the two feasibility queries at its first new decision.
func (m *Machine) pushAlt(v int64, model Model) {
	alt := make([]int64, m.pos+1)
	copy(alt, m.trace[:m.pos])
	alt[m.pos] = v
	m.alts = append(m.alts, workItem{prefix: alt, model: model})
}

func (m *Machine) branch(c *Term) bool {
	if c.IsConst() {
		return c.IsTrue()
	}
	if m.lenient {
		m.unsupported("symbolic branch during initialisation")
	}
	if m.pos < len(m.prefix) {
		v := m.prefix[m.pos]
		m.trace = append(m.trace, v)
		m.pos++
		if v == 1 {
			m.addPC(c)
			return true
		}
		m.addPC(m.st.BNot(c))
		return false
	}
	nc := m.st.BNot(c)
	tf, tm, _ := m.feasible(c)
	ff, fm, _ := m.feasible(nc)
	switch {
	case tf && ff:
		m.pushAlt(0, fm)
		m.trace = append(m.trace, 1)
		m.pos++
		m.addPC(c)
		if tm != nil {
			m.lastModel = tm
		}
		return true
	case tf:
		m.trace = append(m.trace, 1)
		m.pos++
		m.addPC(c)
		if tm != nil {
			m.lastModel = tm
		}
		return true
	case ff:
		m.trace = append(m.trace, 0)
		m.pos++
		m.addPC(nc)
		if fm != nil {
			m.lastModel = fm
		}
		return false
	}
	m.end("infeasible", "path condition unsatisfiable at branch")
	return false
}

// decide enumerates n alternatives (no solver involved).
func (m *Machine) decide(n int, what string) int64 {
	if n <= 1 {
		return 0
	}
	if m.pos < len(m.prefix) {
		v := m.prefix[m.pos]
		m.trace = append(m.trace, v)
		m.pos++
		return v
	}
	for i := n - 1; i >= 1; i-- {
		m.pushAlt(int64(i), m.lastModel)
	}
	m.trace = append(m.trace, 0)
	m.pos++
	return 0
}

const maxConcretize = 48

// concretize case-splits on the value of t within [lo,hi] (signed).
func (m *Machine) concretize(t *Term, lo, hi int64, what string) int64 {
	if t.IsConst() {
		return t.SVal()
	}
	eqv := func(v int64) *Term { return m.st.Eq(t, m.st.Const(t.W, uint64(v))) }
	if m.pos < len(m.prefix) {
		v := m.prefix[m.pos]
		m.trace = append(m.trace, v)
		m.pos++
		m.addPC(eqv(v))
		return v
	}
	inRange := m.st.BAnd(m.st.Sle(m.st.Const(t.W, uint64(lo)), t), m.st.Sle(t, m.st.Const(t.W, uint64(hi))))
	var vals []int64
	models := map[int64]Model{}
	cond := inRange
	for {
		ok, model, r := m.feasible(cond)
		if !ok {
			break
		}
		if r == Unknown || model == nil {
			m.end("inconclusive", "solver unknown while enumerating values of %s", what)
		}
		v := sext(EvalTerm(t, model, map[*Term]uint64{}), t.W)
		vals = append(vals, v)
		models[v] = model
		if len(vals) > maxConcretize {
			m.unsupported("more than %d feasible values for %s", maxConcretize, what)
		}
		cond = m.st.BAnd(cond, m.st.BNot(eqv(v)))
	}
	if len(vals) == 0 {
		m.end("infeasible", "no feasible value for %s", what)
	}
	sort.Slice(vals, func(i, j int) bool { return vals[i] < vals[j] })
	for i := len(vals) - 1; i >= 1; i-- {
		m.pushAlt(vals[i], models[vals[i]])
	}
	m.trace = append(m.trace, vals[0])
	m.pos++
	m.lastModel = models[vals[0]]
	m.addPC(eqv(vals[0]))
	return vals[0]
}

// floatSamples: boundary values at which float arithmetic, rounding and
// float<->integer conversion change behaviour.
var floatSamples = []float64{0, math.Copysign(0, -1), 1, -1.5, 0.1, 1500000, 1 << 31, 1 << 53, 1 << 63, -(1 << 63), 1<<63 + 2048, 1 << 64,
	1e21, 1e300, 5e-324, math.MaxFloat32, math.Inf(1), math.NaN()}

// after the first two sampled values on a path only these are tried (plus the
// model's value): the product of sample sets would otherwise dominate
var floatSamplesFew = []float64{0, 1.5, 1 << 63}

var intSamples = []int64{0, 1, -1, 2, 127, 128, 1 << 24, 1<<24 + 1, 1 << 31, 1<<31 - 1, -(1 << 31), 1 << 32, 1 << 53, 1<<53 + 1, 1 << 62,
	math.MaxInt64, math.MinInt64, math.MaxInt64 - 511}

// sampleBits case-splits t over the feasible members of cands plus the value
// the current model gives it. This is an under-approximation: the path set
// that follows covers those values only, so every path through here is marked
// as sampled and the harness cannot be reported as exhaustively decided.
func (m *Machine) sampleBits(t *Term, cands []uint64, what string) *Term {
	if t.IsConst() {
		return t
	}
	eqv := func(v uint64) *Term { return m.st.Eq(t, m.st.Const(t.W, v)) }
	note := fmt.Sprintf("%s at %s: symbolic value sampled at boundary values (not exhaustive)", what, m.site())
	seenNote := false
	for _, u := range m.inconclusive {
		if u == note {
			seenNote = true
		}
	}
	if !seenNote {
		m.inconclusive = append(m.inconclusive, note)
	}
	if m.pos < len(m.prefix) {
		v := uint64(m.prefix[m.pos])
		m.trace = append(m.trace, int64(v))
		m.pos++
		m.addPC(eqv(v))
		return m.st.Const(t.W, v)
	}
	var vals []uint64
	models := map[uint64]Model{}
	seen := map[uint64]bool{}
	try := func(v uint64) {
		v &= mask(t.W)
		if seen[v] {
			return
		}
		seen[v] = true
		ok, model, r := m.feasible(eqv(v))
		if ok && r == Sat {
			vals = append(vals, v)
			models[v] = model
		}
	}
	if m.lastModel != nil {
		try(EvalTerm(t, m.lastModel, map[*Term]uint64{}))
	}
	for _, c := range cands {
		try(c)
	}
	if len(vals) == 0 {
		// none of the samples is feasible: take whatever the solver offers
		ok, model, r := m.feasible(m.st.Bool(true))
		if !ok || r != Sat || model == nil {
			m.end("inconclusive", "no sample value for %s", what)
		}
		v := EvalTerm(t, model, map[*Term]uint64{})
		vals = append(vals, v)
		models[v] = model
	}
	for i := len(vals) - 1; i >= 1; i-- {
		m.pushAlt(int64(vals[i]), models[vals[i]])
	}
	m.trace = append(m.trace, int64(vals[0]))
	m.pos++
	if models[vals[0]] != nil {
		m.lastModel = models[vals[0]]
	}
	m.addPC(eqv(vals[0]))
	return m.st.Const(t.W, vals[0])
}

func (m *Machine) sampleFloat(t *Term, what string) *Term {
	var cands []uint64
	list := floatSamples
	if m.nSampled >= 2 {
		list = floatSamplesFew
	}
	m.nSampled++
	for _, f := range list {
		if t.W == 32 {
			cands = append(cands, uint64(math.Float32bits(float32(f))))
		} else {
			cands = append(cands, math.Float64bits(f))
		}
	}
	return m.sampleBits(t, cands, what)
}

func (m *Machine) sampleInt(t *Term, unsigned bool, what string) *Term {
	var cands []uint64
	list := intSamples
	if m.nSampled >= 2 {
		list = list[:3]
	}
	m.nSampled++
	for _, v := range list {
		cands = append(cands, uint64(v))
	}
	if unsigned && m.nSampled <= 2 {
		cands = append(cands, math.MaxUint64, 1<<63)
	}
	return m.sampleBits(t, cands, what)
}

func (m *Machine) assume(c *Term) {
	if c.IsTrue() {
		return
	}
	ok, model, _ := m.feasible(c)
	if !ok {
		m.end("infeasible", "assumption unsatisfiable")
	}
	m.addPC(c)
	if model != nil {
		m.lastModel = model
	}
}

// check is the property assertion: pc ∧ ¬c must be unsat.
func (m *Machine) check(label string, c *Term) {
	m.events = append(m.events, Event{Kind: "assert", Label: label, OK: c})
	if c.IsTrue() {
		return
	}
	m.syncSolver()
	m.queriesAssert++
	r, model := m.sol.Check([]*Term{m.st.BNot(c)}, true, m.st.Vars)
	switch r {
	case Sat:
		m.recordViolation("assert", label, "assertion can fail", model)
	case Unknown:
		m.unknowns++
		m.inconclusive = append(m.inconclusive, "assert "+label+": solver unknown")
	}
	// continue under the assumption that it held
	if ok, _, _ := m.feasible(c); !ok {
		m.end("ok", "assertion %s fails on every input of this path", label)
	}
	m.addPC(c)
}

func (m *Machine) recordViolation(kind, label, msg string, model Model) {
	v := &Violation{Kind: kind, Label: label, Msg: msg, Site: m.site(), Model: model,
		Trace: append([]int64{}, m.trace...), Nondets: append([]NondetRec{}, m.nondets...),
		Events: append([]Event{}, m.events...), Budget: m.allocBudget, LoopBound: m.loopBound}
	m.viols = append(m.viols, v)
}

// pathModel returns a model of the current path condition.
func (m *Machine) pathModel() (Model, SatResult) {
	if m.lastModel != nil {
		return m.lastModel, Sat
	}
	m.syncSolver()
	r, model := m.sol.Check(nil, true, m.st.Vars)
	if r == Sat && model == nil {
		model = Model{}
	}
	return model, r
}

// ---------- path driver ----------

type PathResult struct {
	Harness        string
	Prefix         []int64
	Trace          []int64
	End            *PathEnd
	Viols          []*Violation
	Alts           []workItem
	Steps          int64
	Model          Model // witness model of the complete path (for validation)
	Nondets        []NondetRec
	Events         []Event
	Funcs          map[string]bool
	Unknowns       int
	QFeas, QAssert int
	Implicit       int
	Inconclusive   []string
	NSym           int // number of symbolic variables created
	store          *Store
}

func (m *Machine) resetPath(h *Harness, prefix []int64, model Model) {
	m.w = m.P.base.Fork()
	m.st = NewStore()
	m.sol.Reset()
	m.prefix = prefix
	m.pos = 0
	m.trace = m.trace[:0]
	m.alts = nil
	m.pc = nil
	m.facts = nil
	m.rangeMemo = nil
	m.pcSet = nil
	m.asserted = 0
	m.lastModel = model
	if m.lastModel == nil {
		m.lastModel = Model{}
	}
	m.frame = nil
	m.depth = 0
	m.steps = 0
	m.stepLimit = m.P.opts.StepLimit
	m.loopBound = m.P.opts.LoopBound
	m.allocBudget = 0
	m.nondets = nil
	m.nameCount = map[string]int{}
	m.events = nil
	m.viols = nil
	m.unknowns = 0
	m.queriesFeas, m.queriesAssert = 0, 0
	m.implicitChecks = 0
	m.harness = h
	m.mapOrderFork = true
	m.inconclusive = nil
	m.nSampled = 0
	m.lenient = false
}

func (m *Machine) RunPath(h *Harness, it workItem, wantWitness bool) (res *PathResult) {
	prefix := it.prefix
	m.resetPath(h, prefix, it.model)
	res = &PathResult{Harness: h.Name, Prefix: prefix}
	defer func() {
		if r := recover(); r != nil {
			pe, ok := r.(*PathEnd)
			if !ok {
				// internal error of the engine: report as unsupported with the panic text
				pe = &PathEnd{Kind: "unsupported", Msg: fmt.Sprintf("engine panic: %v", r), Site: m.site()}
				if m.P.opts.Debug {
					panic(r)
				}
			}
			res.End = pe
		}
		m.finishPath(res, wantWitness)
	}()
	m.callFunction(h.Fn, nil, nil)
	res.End = &PathEnd{Kind: "ok"}
	return res
}

func (m *Machine) finishPath(res *PathResult, wantWitness bool) {
	pe := res.End
	switch pe.Kind {
	case "fault", "unwind", "steps":
		// a run-time error of the program under test on a feasible path
		model, r := m.pathModel()
		if r == Sat && pe.Kind != "fault" {
			model = m.amplify(model)
		}
		switch r {
		case Sat:
			kind := pe.Kind
			label := pe.Sub
			if kind != "fault" {
				label = "no-termination"
			}
			m.recordViolation(kind, label, pe.Msg, model)
			m.viols[len(m.viols)-1].Site = pe.Site
		case Unsat:
			res.End = &PathEnd{Kind: "infeasible", Msg: "fault on infeasible path"}
		default:
			m.inconclusive = append(m.inconclusive, "feasibility of faulting path unknown: "+pe.String())
		}
	case "ok":
		if wantWitness {
			if model, r := m.pathModel(); r == Sat {
				res.Model = model
			}
		}
	}
	res.Trace = append([]int64{}, m.trace...)
	res.Viols = m.viols
	res.Alts = m.alts
	res.Steps = m.steps
	res.Nondets = m.nondets
	res.Events = m.events
	res.Unknowns = m.unknowns
	res.QFeas, res.QAssert = m.queriesFeas, m.queriesAssert
	res.Implicit = m.implicitChecks
	res.Inconclusive = m.inconclusive
	res.NSym = len(m.st.Vars)
	res.store = m.st
}

// ---------- exploration of one harness ----------

type HarnessResult struct {
	Name                     string
	Paths                    int
	PathsOK                  int
	Infeasible               int
	NoVariant                int
	Steps                    int64
	Viols                    []*FoundViolation
	Unsupported              []string
	Inconclusive             []string
	Witnesses                []*PathResult
	Funcs                    map[string]bool
	QFeas, QAssert, Unknowns int
	Implicit                 int
	AssertsProved            int
	AssertLabels             map[string]int
	SymPaths                 int // paths with at least one symbolic variable
	Truncated                bool
	ThoroughBounds           bool // explored with vrt.Thorough() == true
	MidBounds                bool // ... and vrt.Mid() == true
	UsedVariant              bool
	SolverTime               time.Duration
	Wall                     time.Duration
}

type FoundViolation struct {
	Harness string
	V       *Violation
	st      *Store
}

type workItem struct {
	prefix []int64
	model  Model
}

func (P *Program) Explore(h *Harness, workers int, maxPaths int, nWitness int) *HarnessResult {
	t0 := time.Now()
	hr := &HarnessResult{Name: h.Name, Funcs: map[string]bool{}, AssertLabels: map[string]int{}}
	hr.ThoroughBounds = P.opts.Tier == "thorough" && !P.opts.ForceQuick
	hr.MidBounds = hr.ThoroughBounds && P.opts.Mid
	var mu sync.Mutex
	cond := sync.NewCond(&mu)
	stack := []workItem{{}}
	active := 0
	done := false
	seenViol := map[string]bool{}

	worker := func() {
		sol, err := NewSolver(P.opts.Solver, P.opts.QueryTimeoutMs)
		if err != nil {
			mu.Lock()
			hr.Inconclusive = append(hr.Inconclusive, "cannot start solver: "+err.Error())
			done = true
			cond.Broadcast()
			mu.Unlock()
			return
		}
		defer sol.Close()
		m := &Machine{P: P, sol: sol, funcsSeen: map[*ssaFunc]bool{}}
		for {
			mu.Lock()
			for len(stack) == 0 && active > 0 && !done {
				cond.Wait()
			}
			if done || (len(stack) == 0 && active == 0) {
				cond.Broadcast()
				mu.Unlock()
				break
			}
			it := stack[len(stack)-1]
			stack = stack[:len(stack)-1]
			active++
			wantW := len(hr.Witnesses) < nWitness
			mu.Unlock()

			res := m.RunPath(h, it, wantW)

			mu.Lock()
			active--
			hr.Paths++
			hr.Steps += res.Steps
			hr.QFeas += res.QFeas
			hr.QAssert += res.QAssert
			hr.Implicit += res.Implicit
			hr.Unknowns += res.Unknowns
			if res.NSym > 0 {
				hr.SymPaths++
			}
			for _, e := range res.Events {
				if e.Kind == "assert" {
					hr.AssertLabels[e.Label]++
					hr.AssertsProved++
				}
			}
			hr.Inconclusive = append(hr.Inconclusive, res.Inconclusive...)
			for _, nd := range res.Nondets {
				if nd.Kind == "variant" {
					hr.UsedVariant = true
				}
			}
			switch res.End.Kind {
			case "ok":
				hr.PathsOK++
				if res.Model != nil && len(hr.Witnesses) < nWitness {
					hr.Witnesses = append(hr.Witnesses, res)
				}
			case "infeasible":
				hr.Infeasible++
			case "novariant":
				hr.NoVariant++
			case "unsupported":
				if len(hr.Unsupported) < 20 {
					hr.Unsupported = append(hr.Unsupported, res.End.String())
				}
			case "inconclusive":
				hr.Inconclusive = append(hr.Inconclusive, res.End.String())
			}
			for _, v := range res.Viols {
				key := v.Kind + "|" + v.Label + "|" + v.Site
				if !seenViol[key] || len(hr.Viols) < 200 {
					if !seenViol[key] {
						seenViol[key] = true
					}
					hr.Viols = append(hr.Viols, &FoundViolation{Harness: h.Name, V: v, st: res.store})
				}
			}
			stack = append(stack, res.Alts...)
			if ((maxPaths > 0 && hr.Paths >= maxPaths) || (P.opts.WallBudget > 0 && time.Since(t0) > P.opts.WallBudget)) && (len(stack) > 0 || active > 0) {
				hr.Truncated = true
				done = true
			}
			cond.Broadcast()
			mu.Unlock()
		}
		mu.Lock()
		for f := range m.funcsSeen {
			hr.Funcs[f.String()] = true
		}
		hr.SolverTime += sol.Time
		mu.Unlock()
	}
	var wg sync.WaitGroup
	for i := 0; i < workers; i++ {
		wg.Add(1)
		go func() { defer wg.Done(); worker() }()
	}
	wg.Wait()
	hr.Wall = time.Since(t0)
	return hr
}

// amplify greedily pushes the byte-sized inputs of a non-terminating path to
// their largest feasible values (0xff, else 0x7f), so that input-controlled
// loop counts become large enough for the native replay to observe the hang.
func (m *Machine) amplify(model Model) Model {
	m.syncSolver()
	var extra []*Term
	for _, nd := range m.nondets {
		if nd.Var == nil || nd.W != 8 {
			continue
		}
		for _, v := range []uint64{0xff, 0x7f} {
			c := m.st.Eq(nd.Var, m.st.Const(8, v))
			r, mod := m.sol.Check(append(append([]*Term{}, extra...), c), true, m.st.Vars)
			if r == Sat {
				extra = append(extra, c)
				model = mod
				break
			}
		}
	}
	return model
}
