package main

// Native confirmation of unwinding violations whose model does not hang: the
// replay binary is rebuilt with a go build overlay in which every for/range
// loop of the code under test increments a per-loop counter (the sources in
// /repo are not touched). The native run then reports how often each loop
// iterated; a loop iterating more often than the unwinding bound confirms the
// violation ("iterations not bounded by the input length").

import (
	"bytes"
	"encoding/json"
	"fmt"
	"go/ast"
	"go/format"
	"go/parser"
	"go/token"
	"os"
	"os/exec"
	"path/filepath"
	"strings"
)

type loopInfo struct {
	ID   int
	File string
	Line int
	Func string
}

func buildInstrumentedReplay(P *Program, tag string) (string, []loopInfo, error) {
	if err := writeRegistry(P); err != nil {
		return "", nil, err
	}
	dir := filepath.Join(workDir, "instr-"+tag)
	os.RemoveAll(dir)
	os.MkdirAll(dir, 0o755)
	overlay := map[string]string{}
	var loops []loopInfo
	type pkgInfo struct{ name, dir, importPath string }
	pkgs := map[string]*pkgInfo{}
	fset := token.NewFileSet()
	type parsed struct {
		path string
		f    *ast.File
	}
	var files []parsed
	for _, path := range P.LoadedFiles {
		if strings.HasSuffix(path, "_test.go") || strings.Contains(path, "/cmd/") {
			continue
		}
		f, err := parser.ParseFile(fset, path, nil, parser.ParseComments)
		if err != nil {
			return "", nil, err
		}
		files = append(files, parsed{path, f})
	}
	for _, pf := range files {
		n0 := len(loops)
		for _, d := range pf.f.Decls {
			fd, ok := d.(*ast.FuncDecl)
			if !ok || fd.Body == nil {
				continue
			}
			fname := fd.Name.Name
			if fd.Recv != nil && len(fd.Recv.List) > 0 {
				var b bytes.Buffer
				format.Node(&b, fset, fd.Recv.List[0].Type)
				fname = "(" + b.String() + ")." + fname
			}
			ast.Inspect(fd.Body, func(n ast.Node) bool {
				var body *ast.BlockStmt
				switch s := n.(type) {
				case *ast.ForStmt:
					body = s.Body
				case *ast.RangeStmt:
					body = s.Body
				}
				if body == nil {
					return true
				}
				id := len(loops)
				loops = append(loops, loopInfo{ID: id, File: pf.path, Line: fset.Position(n.Pos()).Line, Func: fname})
				tick := &ast.ExprStmt{X: &ast.CallExpr{Fun: ast.NewIdent("zzLoopTick"), Args: []ast.Expr{&ast.BasicLit{Kind: token.INT, Value: fmt.Sprint(id)}}}}
				body.List = append([]ast.Stmt{tick}, body.List...)
				return true
			})
		}
		if len(loops) == n0 {
			continue
		}
		pdir := filepath.Dir(pf.path)
		if pkgs[pdir] == nil {
			ip := "github.com/philpearl/plenc" + strings.TrimPrefix(pdir, repoRoot())
			pkgs[pdir] = &pkgInfo{name: pf.f.Name.Name, dir: pdir, importPath: ip}
		}
		var b bytes.Buffer
		if err := format.Node(&b, fset, pf.f); err != nil {
			return "", nil, err
		}
		out := filepath.Join(dir, strings.ReplaceAll(strings.TrimPrefix(pf.path, "/"), "/", "_"))
		if err := os.WriteFile(out, b.Bytes(), 0o644); err != nil {
			return "", nil, err
		}
		overlay[pf.path] = out
	}
	var imports, sums, resets strings.Builder
	i := 0
	for _, pk := range pkgs {
		src := fmt.Sprintf("package %s\n\n// ZZLoopTicks counts loop iterations (verification overlay only).\nvar ZZLoopTicks [%d]int64\n\nfunc zzLoopTick(i int) { ZZLoopTicks[i]++ }\n", pk.name, len(loops))
		out := filepath.Join(dir, fmt.Sprintf("looptick_%s.go", pk.name))
		os.WriteFile(out, []byte(src), 0o644)
		overlay[filepath.Join(pk.dir, "zz_looptick.go")] = out
		alias := fmt.Sprintf("ip%d", i)
		i++
		fmt.Fprintf(&imports, "\t%s %q\n", alias, pk.importPath)
		fmt.Fprintf(&sums, "\t\tfor i, v := range %s.ZZLoopTicks {\n\t\t\tout[i] += v\n\t\t}\n", alias)
		fmt.Fprintf(&resets, "\t\t%s.ZZLoopTicks = [%d]int64{}\n", alias, len(loops))
	}
	hook := fmt.Sprintf("package props\n\nimport (\n%s)\n\nfunc init() {\n\tloopTicksFn = func() []int64 {\n\t\tout := make([]int64, %d)\n%s\t\treturn out\n\t}\n\tloopTicksReset = func() {\n%s\t}\n}\n", imports.String(), len(loops), sums.String(), resets.String())
	hookFile := filepath.Join(dir, "zz_loopticks_test.go")
	os.WriteFile(hookFile, []byte(hook), 0o644)
	overlay[filepath.Join(P.opts.HarnessDir, "props", "zz_loopticks_test.go")] = hookFile
	ob, _ := json.Marshal(map[string]interface{}{"Replace": overlay})
	ofile := filepath.Join(dir, "overlay.json")
	os.WriteFile(ofile, ob, 0o644)
	bin := filepath.Join(workDir, "replay-instr-"+tag+".test")
	cmd := exec.Command("go", "test", "-c", "-vet=off", "-overlay", ofile, "-o", bin, "./props")
	cmd.Dir = P.opts.HarnessDir
	cmd.Env = harnessEnv()
	if out, err := cmd.CombinedOutput(); err != nil {
		return "", nil, fmt.Errorf("building instrumented replay binary: %v\n%s", err, out)
	}
	return bin, loops, nil
}
