package main

// One long-lived solver process per worker, driven over stdin/stdout with
// SMT-LIB2 text. Any "(error" line, "unknown" or timeout is reported as
// inconclusive, never as sat/unsat.

import (
	"os"
	"bufio"
	"fmt"
	"io"
	"os/exec"
	"strconv"
	"strings"
	"time"
)

type SatResult int

const (
	Unsat SatResult = iota
	Sat
	Unknown
)

func (r SatResult) String() string { return [...]string{"unsat", "sat", "unknown"}[r] }

type Solver struct {
	name    string
	argv    []string
	cmd     *exec.Cmd
	in      io.WriteCloser
	out     *bufio.Reader
	declared map[string]bool
	// statistics
	Queries  int
	Unknowns int
	Time     time.Duration
	timeoutMs int
	log      io.Writer
}

func solverArgv(kind string, timeoutMs int) []string {
	switch kind {
	case "z3":
		return []string{"/usr/bin/z3", "-in", fmt.Sprintf("-t:%d", timeoutMs)}
	case "z3-new":
		return []string{"z3-new", "-in", fmt.Sprintf("-t:%d", timeoutMs)}
	case "cvc5":
		return []string{"cvc5", "--incremental", "--lang=smt2", "--produce-models", fmt.Sprintf("--tlimit-per=%d", timeoutMs)}
	}
	panic("unknown solver " + kind)
}

func NewSolver(kind string, timeoutMs int) (*Solver, error) {
	s := &Solver{name: kind, argv: solverArgv(kind, timeoutMs), timeoutMs: timeoutMs}
	if err := s.start(); err != nil {
		return nil, err
	}
	return s, nil
}

func (s *Solver) start() error {
	s.cmd = exec.Command(s.argv[0], s.argv[1:]...)
	in, err := s.cmd.StdinPipe()
	if err != nil {
		return err
	}
	out, err := s.cmd.StdoutPipe()
	if err != nil {
		return err
	}
	s.cmd.Stderr = s.cmd.Stdout
	if err := s.cmd.Start(); err != nil {
		return err
	}
	s.in = in
	s.out = bufio.NewReaderSize(out, 1<<16)
	s.declared = map[string]bool{}
	s.send("(set-option :print-success false)\n")
	if s.name == "cvc5" {
		s.send("(set-logic QF_BV)\n")
	}
	return nil
}

func (s *Solver) Close() {
	if s.cmd != nil {
		s.in.Close()
		s.cmd.Process.Kill()
		s.cmd.Wait()
		s.cmd = nil
	}
}

func (s *Solver) send(txt string) {
	if s.log != nil {
		io.WriteString(s.log, txt)
	}
	io.WriteString(s.in, txt)
}

// Reset clears all assertions and declarations (start of a new path).
func (s *Solver) Reset() {
	if s.name == "cvc5" {
		s.send("(reset)\n(set-option :print-success false)\n(set-logic QF_BV)\n")
	} else {
		s.send("(reset)\n(set-option :print-success false)\n")
	}
	s.declared = map[string]bool{}
}

func (s *Solver) declareVars(ts ...*Term) {
	for _, v := range collectVars(ts) {
		n := smtName(v.Name)
		if s.declared[n] {
			continue
		}
		s.declared[n] = true
		if v.W == 0 {
			s.send(fmt.Sprintf("(declare-const %s Bool)\n", n))
		} else {
			s.send(fmt.Sprintf("(declare-const %s (_ BitVec %d))\n", n, v.W))
		}
	}
}

// Assert adds a permanent (until Reset) assertion.
func (s *Solver) Assert(t *Term) {
	if t.IsTrue() {
		return
	}
	s.declareVars(t)
	s.send("(assert " + TermSMT(t) + ")\n")
}

// readLine reads one line of solver output with a wall-clock guard.
func (s *Solver) readLine() (string, error) {
	type res struct {
		l   string
		err error
	}
	ch := make(chan res, 1)
	go func() {
		l, err := s.out.ReadString('\n')
		ch <- res{l, err}
	}()
	select {
	case r := <-ch:
		return strings.TrimSpace(r.l), r.err
	case <-time.After(time.Duration(s.timeoutMs)*time.Millisecond*2 + 5*time.Second):
		return "", fmt.Errorf("solver wall-clock timeout")
	}
}

// Check decides satisfiability of (asserted ∧ extra...). If wantModel and the
// answer is sat, the values of vars are returned.
func (s *Solver) Check(extra []*Term, wantModel bool, vars []*Term) (SatResult, Model) {
	t0 := time.Now()
	defer func() { s.Time += time.Since(t0); s.Queries++ }()
	for _, e := range extra {
		if e.IsFalse() {
			return Unsat, nil
		}
	}
	s.declareVars(extra...)
	if wantModel {
		s.declareVars(vars...)
	}
	var sb strings.Builder
	sb.WriteString("(push 1)\n")
	for _, e := range extra {
		if e.IsTrue() {
			continue
		}
		sb.WriteString("(assert " + TermSMT(e) + ")\n")
	}
	sb.WriteString("(check-sat)\n")
	s.send(sb.String())
	line, err := s.readLine()
	for err == nil && line == "" {
		line, err = s.readLine()
	}
	res := Unknown
	if err != nil {
		// solver died or hung: restart it; caller must treat as unknown and
		// re-assert its context (we signal by Unknown).
		s.Close()
		s.start()
		s.Unknowns++
		return Unknown, nil
	}
	switch {
	case line == "sat":
		res = Sat
	case line == "unsat":
		res = Unsat
	default:
		res = Unknown
		s.Unknowns++
		if strings.HasPrefix(line, "(error") {
			// drain nothing more; just record
			if s.log != nil {
				io.WriteString(s.log, "; ERROR: "+line+"\n")
			}
		}
	}
	var model Model
	if res == Sat && wantModel && len(vars) > 0 {
		var q strings.Builder
		q.WriteString("(get-value (")
		for _, v := range vars {
			q.WriteString(smtName(v.Name))
			q.WriteByte(' ')
		}
		q.WriteString("))\n")
		s.send(q.String())
		model = Model{}
		txt := ""
		depth := 0
		started := false
		for {
			l, err := s.readLine()
			if err != nil {
				break
			}
			txt += l + " "
			for _, c := range l {
				if c == '(' {
					depth++
					started = true
				} else if c == ')' {
					depth--
				}
			}
			if started && depth <= 0 {
				break
			}
		}
		parseModel(txt, vars, model)
	}
	s.send("(pop 1)\n")
	if slowLog && time.Since(t0) > 200*time.Millisecond {
		fmt.Fprintf(os.Stderr, "SLOW %v %s: %s\n", time.Since(t0), res, truncStr(sb.String(), 600))
	}
	return res, model
}

func parseModel(txt string, vars []*Term, m Model) {
	byName := map[string]*Term{}
	for _, v := range vars {
		byName[smtName(v.Name)] = v
	}
	// tokens: (name value)
	txt = strings.ReplaceAll(txt, "(", " ( ")
	txt = strings.ReplaceAll(txt, ")", " ) ")
	f := strings.Fields(txt)
	for i := 0; i+1 < len(f); i++ {
		v, ok := byName[f[i]]
		if !ok {
			continue
		}
		val := f[i+1]
		switch {
		case val == "true":
			m[v.Name] = 1
		case val == "false":
			m[v.Name] = 0
		case strings.HasPrefix(val, "#x"):
			u, _ := strconv.ParseUint(val[2:], 16, 64)
			m[v.Name] = u
		case strings.HasPrefix(val, "#b"):
			u, _ := strconv.ParseUint(val[2:], 2, 64)
			m[v.Name] = u
		case val == "(" && i+3 < len(f) && f[i+2] == "_" && strings.HasPrefix(f[i+3], "bv"):
			u, _ := strconv.ParseUint(f[i+3][2:], 10, 64)
			m[v.Name] = u
		}
	}
}

var slowLog = os.Getenv("SYMGO_SLOW") != ""

func truncStr(s string, n int) string {
	if len(s) > n {
		return s[:n] + "..."
	}
	return s
}
