module vharness

go 1.23

require github.com/philpearl/plenc v0.0.0

replace github.com/philpearl/plenc => /repo

replace github.com/unravelin/null => github.com/unravelin/null/v4 v4.2.0
