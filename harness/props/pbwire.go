package props

// An independent protobuf wire-format reader (encoding guide): tags are
// varint(field<<3|wt); only wire types 0 (varint), 1 (64-bit), 2 (length
// delimited) and 5 (32-bit) exist in standard protobuf (3/4 are the deprecated
// groups, which plenc re-uses for its own slice format and which must not
// appear in proto-compatible output).

// pbField is one decoded top-level field of a message.
type pbField struct {
	Num  int
	WT   int
	Val  uint64 // varint / fixed value
	Body []byte // length-delimited payload
}

// pbParse splits a message into fields. ok=false if the bytes are not a
// well-formed standard protobuf message (bad tag, wire type 3/4/6/7, truncated
// value, length running past the end).
func pbParse(data []byte) (fs []pbField, ok bool) {
	off := 0
	for off < len(data) {
		tag, n := refReadVarint(data[off:])
		if n <= 0 {
			return nil, false
		}
		off += n
		f := pbField{Num: int(tag >> 3), WT: int(tag & 7)}
		if f.Num == 0 {
			return nil, false
		}
		switch f.WT {
		case 0:
			v, n := refReadVarint(data[off:])
			if n <= 0 {
				return nil, false
			}
			f.Val = v
			off += n
		case 1:
			if len(data)-off < 8 {
				return nil, false
			}
			for i := 7; i >= 0; i-- {
				f.Val = f.Val<<8 | uint64(data[off+i])
			}
			off += 8
		case 5:
			if len(data)-off < 4 {
				return nil, false
			}
			for i := 3; i >= 0; i-- {
				f.Val = f.Val<<8 | uint64(data[off+i])
			}
			off += 4
		case 2:
			l, n := refReadVarint(data[off:])
			if n <= 0 {
				return nil, false
			}
			off += n
			if l > uint64(len(data)-off) {
				return nil, false
			}
			f.Body = data[off : off+int(l)]
			off += int(l)
		default:
			return nil, false
		}
		fs = append(fs, f)
	}
	return fs, true
}

// pbTimestamp: in ProtoCompatibleTime mode a time is google.protobuf.Timestamp
// {1: seconds int64, 2: nanos int32} with plain varints; nanos in [0, 1e9).
func pbTimestamp(body []byte, protoTime bool) bool {
	fs, ok := pbParse(body)
	if !ok {
		return false
	}
	for _, f := range fs {
		if f.WT != 0 || (f.Num != 1 && f.Num != 2) {
			return false
		}
		if protoTime && f.Num == 2 && f.Val >= 1000000000 {
			return false
		}
	}
	return true
}
