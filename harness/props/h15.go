package props

// C15 — the JSON outputter turns any well-nested call sequence into matching,
// valid JSON. Oracle: an independent RFC 8259 recogniser + string decoder
// (below), run on the outputter's bytes; its token list must equal the call
// tree. String and member-name payloads are arbitrary bytes (symbolic);
// numbers take boundary values (formatting is strconv's, run natively).

import (
	"math"
	"strconv"
	"time"

	"github.com/philpearl/plenc/plenccodec"
	"vharness/vrt"
)

const (
	cStartObj = iota
	cEndObj
	cStartArr
	cEndArr
	cName
	cString
	cInt
	cUint
	cF64
	cF32
	cBool
	cTime
)

type call struct {
	K int
	S string
	I int64
	U uint64
	F float64
	B bool
	T time.Time
}

const (
	tStartObj = iota + 1
	tEndObj
	tStartArr
	tEndArr
	tName
	tString
	tNumber
	tTrue
	tFalse
	tNull
)

type jtok struct {
	K int
	S string // decoded string / number text
}

func play(o plenccodec.Outputter, calls []call) {
	for _, c := range calls {
		switch c.K {
		case cStartObj:
			o.StartObject()
		case cEndObj:
			o.EndObject()
		case cStartArr:
			o.StartArray()
		case cEndArr:
			o.EndArray()
		case cName:
			o.NameField(c.S)
		case cString:
			o.String(c.S)
		case cInt:
			o.Int64(c.I)
		case cUint:
			o.Uint64(c.U)
		case cF64:
			o.Float64(c.F)
		case cF32:
			o.Float32(float32(c.F))
		case cBool:
			o.Bool(c.B)
		case cTime:
			o.Time(c.T)
		}
	}
}

var int64Corners = []int64{math.MinInt64, 0, -1, 1, 42, math.MaxInt64}
var uint64Corners = []uint64{math.MaxUint64, 0, 1, 1 << 63}
var f64Corners = []float64{-1.5, 0, math.Copysign(0, -1), 1, 1e21, 1e-7, 5e-324, math.MaxFloat64, 123456789.125}
var f32Corners = []float64{3.14, 0, 1, -2.5, float64(math.MaxFloat32), float64(math.SmallestNonzeroFloat32)}

// floatTable: the values around which number formatting changes form or an
// integer fast path would change behaviour: whole numbers at the edges of the
// int32/int64/uint64 and 2^53 ranges, the exponent-form thresholds (1e21,
// 1e-7), the extremes. H15_Floats renders each of them in every position.
var floatTable = []float64{
	1500000, -1500000, 0.1, -0.1, 1 << 24, 1<<24 + 1, 1 << 31, 1<<31 - 1, -(1 << 31), 1 << 32, 1 << 52, 1 << 53, 1<<53 + 2,
	1 << 62, 1 << 63, -(1 << 63), 1<<63 - 1024, 1<<63 + 2048, 1 << 64, 1<<64 - 2048, 1e15, 1e16, 1e17, 1e20, 999999999999999868928, 1e21, -1e21, 1e22,
	1e-6, 1e-7, 9.9e-7, 1e100, 1e300, -1e300, math.MaxFloat64, -math.MaxFloat64, 5e-324, 2.2250738585072014e-308,
	float64(math.MaxFloat32), float64(math.SmallestNonzeroFloat32), 16777216, 16777217, 3.4028235e38, 1e38, 1e-38, 0.30000001192092896,
}
var timeCorners = []time.Time{time.Unix(1700000000, 123456789).UTC(), time.Unix(0, 0).UTC(), {}}

func strLen() int {
	if vrt.Thorough() {
		return 3
	}
	return 2
}

// genValue appends the calls and the expected tokens of one arbitrary value.
func genValue(nm string, d int, calls *[]call, exp *[]jtok) {
	genValueM(nm, d, true, calls, exp)
}

// corner picks an index into a table of n boundary values; nested positions
// use only the first two entries unless the tier is thorough.
func corner(nm string, n int, full bool) int {
	if !full && !vrt.Thorough() {
		return 0
	}
	return vrt.Choice(nm, n)
}

// symStrings: string payloads are symbolic bytes (else fixed text).
var symStrings = true

func someString(nm string, maxLen int) string {
	if !symStrings {
		return "s\"\n"
	}
	// call trees use arbitrary ASCII (quotes, backslashes, control characters
	// included); all 256 byte values are covered by H15_String
	s := vrt.String(nm, vrt.Choice(nm+".len", maxLen+1))
	for i := 0; i < len(s); i++ {
		vrt.Assume(s[i] < 0x80)
	}
	return s
}

func genValueM(nm string, d int, full bool, calls *[]call, exp *[]jtok) {
	nk := 9
	if d <= 0 {
		nk = 7
	}
	switch vrt.Choice(nm+".kind", nk) {
	case 0:
		sl := strLen()
		if !full {
			sl = 1
		}
		s := someString(nm, sl)
		*calls = append(*calls, call{K: cString, S: s})
		*exp = append(*exp, jtok{tString, s})
	case 1:
		v := int64Corners[corner(nm+".int", len(int64Corners), full)]
		*calls = append(*calls, call{K: cInt, I: v})
		*exp = append(*exp, jtok{tNumber, strconv.FormatInt(v, 10)})
	case 2:
		v := uint64Corners[corner(nm+".uint", len(uint64Corners), full)]
		*calls = append(*calls, call{K: cUint, U: v})
		*exp = append(*exp, jtok{tNumber, strconv.FormatUint(v, 10)})
	case 3:
		v := f64Corners[corner(nm+".f64", len(f64Corners), full)]
		*calls = append(*calls, call{K: cF64, F: v})
		*exp = append(*exp, jtok{tNumber, "f64:" + strconv.FormatUint(math.Float64bits(v), 16)})
	case 4:
		v := f32Corners[corner(nm+".f32", len(f32Corners), full)]
		*calls = append(*calls, call{K: cF32, F: v})
		*exp = append(*exp, jtok{tNumber, "f32:" + strconv.FormatUint(uint64(math.Float32bits(float32(v))), 16)})
	case 5:
		b := corner(nm+".bool", 2, full) == 0
		*calls = append(*calls, call{K: cBool, B: b})
		if b {
			*exp = append(*exp, jtok{K: tTrue})
		} else {
			*exp = append(*exp, jtok{K: tFalse})
		}
	case 6:
		t := timeCorners[corner(nm+".time", len(timeCorners), full)]
		*calls = append(*calls, call{K: cTime, T: t})
		*exp = append(*exp, jtok{tString, t.Format(time.RFC3339Nano)})
	case 7:
		*calls = append(*calls, call{K: cStartObj})
		*exp = append(*exp, jtok{K: tStartObj})
		n := vrt.Choice(nm+".members", 3)
		for i := 0; i < n; i++ {
			name := someString(idx(nm+".name", i), 1)
			*calls = append(*calls, call{K: cName, S: name})
			*exp = append(*exp, jtok{tName, name})
			genValueM(idx(nm+".m", i), d-1, false, calls, exp)
		}
		*calls = append(*calls, call{K: cEndObj})
		*exp = append(*exp, jtok{K: tEndObj})
	case 8:
		*calls = append(*calls, call{K: cStartArr})
		*exp = append(*exp, jtok{K: tStartArr})
		n := vrt.Choice(nm+".elems", 3)
		for i := 0; i < n; i++ {
			genValueM(idx(nm+".e", i), d-1, false, calls, exp)
		}
		*calls = append(*calls, call{K: cEndArr})
		*exp = append(*exp, jtok{K: tEndArr})
	}
}

// ---- the independent JSON recogniser ----

type jparser struct {
	d    []byte
	pos  int
	toks []jtok
	ok   bool
}

func (p *jparser) ws() {
	for p.pos < len(p.d) {
		c := p.d[p.pos]
		if c == ' ' || c == '\n' || c == '\r' || c == '\t' {
			p.pos++
			continue
		}
		return
	}
}

func hexVal(c byte) (int, bool) {
	switch {
	case c >= '0' && c <= '9':
		return int(c - '0'), true
	case c >= 'a' && c <= 'f':
		return int(c-'a') + 10, true
	case c >= 'A' && c <= 'F':
		return int(c-'A') + 10, true
	}
	return 0, false
}

// str parses a JSON string at pos (which holds the opening quote) and returns
// the decoded bytes.
func (p *jparser) str() (string, bool) {
	p.pos++ // opening quote
	var out []byte
	for p.pos < len(p.d) {
		c := p.d[p.pos]
		switch {
		case c == '"':
			p.pos++
			return string(out), true
		case c == '\\':
			if p.pos+1 >= len(p.d) {
				return "", false
			}
			e := p.d[p.pos+1]
			p.pos += 2
			switch e {
			case '"', '\\', '/':
				out = append(out, e)
			case 'b':
				out = append(out, 8)
			case 'f':
				out = append(out, 12)
			case 'n':
				out = append(out, 10)
			case 'r':
				out = append(out, 13)
			case 't':
				out = append(out, 9)
			case 'u':
				if p.pos+4 > len(p.d) {
					return "", false
				}
				v := 0
				for i := 0; i < 4; i++ {
					h, ok := hexVal(p.d[p.pos+i])
					if !ok {
						return "", false
					}
					v = v<<4 | h
				}
				p.pos += 4
				switch {
				case v < 0x80:
					out = append(out, byte(v))
				case v < 0x800:
					out = append(out, byte(0xC0|v>>6), byte(0x80|v&0x3F))
				default:
					out = append(out, byte(0xE0|v>>12), byte(0x80|(v>>6)&0x3F), byte(0x80|v&0x3F))
				}
			default:
				return "", false
			}
		case c < 0x20:
			return "", false // control characters must be escaped
		default:
			out = append(out, c)
			p.pos++
		}
	}
	return "", false
}

func isDigit(c byte) bool { return c >= '0' && c <= '9' }

// number: -? (0 | [1-9][0-9]*) (. [0-9]+)? ([eE] [+-]? [0-9]+)?
func (p *jparser) number() (string, bool) {
	start := p.pos
	if p.pos < len(p.d) && p.d[p.pos] == '-' {
		p.pos++
	}
	if p.pos >= len(p.d) {
		return "", false
	}
	if p.d[p.pos] == '0' {
		p.pos++
	} else if p.d[p.pos] >= '1' && p.d[p.pos] <= '9' {
		for p.pos < len(p.d) && isDigit(p.d[p.pos]) {
			p.pos++
		}
	} else {
		return "", false
	}
	if p.pos < len(p.d) && p.d[p.pos] == '.' {
		p.pos++
		if p.pos >= len(p.d) || !isDigit(p.d[p.pos]) {
			return "", false
		}
		for p.pos < len(p.d) && isDigit(p.d[p.pos]) {
			p.pos++
		}
	}
	if p.pos < len(p.d) && (p.d[p.pos] == 'e' || p.d[p.pos] == 'E') {
		p.pos++
		if p.pos < len(p.d) && (p.d[p.pos] == '+' || p.d[p.pos] == '-') {
			p.pos++
		}
		if p.pos >= len(p.d) || !isDigit(p.d[p.pos]) {
			return "", false
		}
		for p.pos < len(p.d) && isDigit(p.d[p.pos]) {
			p.pos++
		}
	}
	return string(p.d[start:p.pos]), true
}

func (p *jparser) lit(s string, k int) bool {
	if p.pos+len(s) > len(p.d) || string(p.d[p.pos:p.pos+len(s)]) != s {
		return false
	}
	p.pos += len(s)
	p.toks = append(p.toks, jtok{K: k})
	return true
}

func (p *jparser) value(depth int) bool {
	if depth > 200 {
		return false
	}
	p.ws()
	if p.pos >= len(p.d) {
		return false
	}
	switch c := p.d[p.pos]; {
	case c == '{':
		p.pos++
		p.toks = append(p.toks, jtok{K: tStartObj})
		p.ws()
		if p.pos < len(p.d) && p.d[p.pos] == '}' {
			p.pos++
			p.toks = append(p.toks, jtok{K: tEndObj})
			return true
		}
		for {
			p.ws()
			if p.pos >= len(p.d) || p.d[p.pos] != '"' {
				return false
			}
			name, ok := p.str()
			if !ok {
				return false
			}
			p.toks = append(p.toks, jtok{tName, name})
			p.ws()
			if p.pos >= len(p.d) || p.d[p.pos] != ':' {
				return false
			}
			p.pos++
			if !p.value(depth + 1) {
				return false
			}
			p.ws()
			if p.pos >= len(p.d) {
				return false
			}
			if p.d[p.pos] == ',' {
				p.pos++
				continue
			}
			if p.d[p.pos] == '}' {
				p.pos++
				p.toks = append(p.toks, jtok{K: tEndObj})
				return true
			}
			return false
		}
	case c == '[':
		p.pos++
		p.toks = append(p.toks, jtok{K: tStartArr})
		p.ws()
		if p.pos < len(p.d) && p.d[p.pos] == ']' {
			p.pos++
			p.toks = append(p.toks, jtok{K: tEndArr})
			return true
		}
		for {
			if !p.value(depth + 1) {
				return false
			}
			p.ws()
			if p.pos >= len(p.d) {
				return false
			}
			if p.d[p.pos] == ',' {
				p.pos++
				continue
			}
			if p.d[p.pos] == ']' {
				p.pos++
				p.toks = append(p.toks, jtok{K: tEndArr})
				return true
			}
			return false
		}
	case c == '"':
		s, ok := p.str()
		if !ok {
			return false
		}
		p.toks = append(p.toks, jtok{tString, s})
		return true
	case c == 't':
		return p.lit("true", tTrue)
	case c == 'f':
		return p.lit("false", tFalse)
	case c == 'n':
		return p.lit("null", tNull)
	case c == '-' || isDigit(c):
		n, ok := p.number()
		if !ok {
			return false
		}
		p.toks = append(p.toks, jtok{tNumber, n})
		return true
	}
	return false
}

// jsonParse: one JSON value followed only by whitespace.
func jsonParse(data []byte) ([]jtok, bool) {
	p := &jparser{d: data}
	if !p.value(0) {
		return nil, false
	}
	p.ws()
	if p.pos != len(p.d) {
		return nil, false
	}
	return p.toks, true
}

func cont(c byte) bool { return c >= 0x80 && c <= 0xBF }

// utf8Valid: the bytes are well-formed UTF-8 (RFC 3629 table). The property
// promises that strings parse back to themselves for valid UTF-8 only; for
// arbitrary bytes it promises valid JSON.
func utf8Valid(s string) bool {
	for i := 0; i < len(s); {
		c := s[i]
		n := len(s) - i
		switch {
		case c < 0x80:
			i++
		case c >= 0xC2 && c <= 0xDF:
			if n < 2 || !cont(s[i+1]) {
				return false
			}
			i += 2
		case c == 0xE0:
			if n < 3 || s[i+1] < 0xA0 || s[i+1] > 0xBF || !cont(s[i+2]) {
				return false
			}
			i += 3
		case c == 0xED:
			if n < 3 || s[i+1] < 0x80 || s[i+1] > 0x9F || !cont(s[i+2]) {
				return false
			}
			i += 3
		case c >= 0xE1 && c <= 0xEF:
			if n < 3 || !cont(s[i+1]) || !cont(s[i+2]) {
				return false
			}
			i += 3
		case c == 0xF0:
			if n < 4 || s[i+1] < 0x90 || s[i+1] > 0xBF || !cont(s[i+2]) || !cont(s[i+3]) {
				return false
			}
			i += 4
		case c >= 0xF1 && c <= 0xF3:
			if n < 4 || !cont(s[i+1]) || !cont(s[i+2]) || !cont(s[i+3]) {
				return false
			}
			i += 4
		case c == 0xF4:
			if n < 4 || s[i+1] < 0x80 || s[i+1] > 0x8F || !cont(s[i+2]) || !cont(s[i+3]) {
				return false
			}
			i += 4
		default:
			return false
		}
	}
	return true
}

// sameTokens: the parsed document equals the call tree. Numbers: integers by
// text, floats by parsing the text back to the same bits.
func sameTokens(exp, got []jtok) bool {
	if len(exp) != len(got) {
		return false
	}
	ok := true
	for i := range exp {
		if exp[i].K != got[i].K {
			return false
		}
		switch exp[i].K {
		case tNumber:
			if len(exp[i].S) > 4 && exp[i].S[:4] == "f32:" {
				// a float32 payload: the text must denote the same float32
				// (it may carry 32- or 64-bit shortest digits)
				bits, _ := strconv.ParseUint(exp[i].S[4:], 16, 32)
				f, err := strconv.ParseFloat(got[i].S, 64)
				if err != nil || math.Float32bits(float32(f)) != uint32(bits) {
					return false
				}
			} else if len(exp[i].S) > 4 && exp[i].S[:4] == "f64:" {
				bits, _ := strconv.ParseUint(exp[i].S[4:], 16, 64)
				f, err := strconv.ParseFloat(got[i].S, 64)
				if err != nil || math.Float64bits(f) != bits {
					// -0 renders as "-0" and parses back to -0; be exact
					return false
				}
			} else if exp[i].S != got[i].S {
				return false
			}
		case tName, tString:
			// (tree strings are ASCII by assumption, hence valid UTF-8)
			ok = vrt.And(ok, exp[i].S == got[i].S)
		}
	}
	return ok
}

func treeDepth() int {
	if vrt.Thorough() {
		return 2
	}
	return 1
}

// H15_Tree: one arbitrary call tree.
func H15_Tree() {
	var calls []call
	var exp []jtok
	genValue("v", treeDepth(), &calls, &exp)
	var out plenccodec.JSONOutput
	play(&out, calls)
	data := out.Done()
	vrt.ObserveBytes("json", data)
	toks, ok := jsonParse(data)
	vrt.Assert("output is one valid JSON document", ok)
	if ok {
		vrt.Assert("document equals the call tree", sameTokens(exp, toks))
	}
}

// H15_Nested: container directly inside container, every adjacency of
// empty/non-empty containers and scalars at depth 2 (strings concrete here).
func H15_Nested() {
	var calls []call
	var exp []jtok
	outer := vrt.Choice("outer", 2)
	if outer == 0 {
		calls = append(calls, call{K: cStartObj})
		exp = append(exp, jtok{K: tStartObj})
	} else {
		calls = append(calls, call{K: cStartArr})
		exp = append(exp, jtok{K: tStartArr})
	}
	n := vrt.Choice("n", 4)
	for i := 0; i < n; i++ {
		if outer == 0 {
			calls = append(calls, call{K: cName, S: string(rune('a' + i))})
			exp = append(exp, jtok{tName, string(rune('a' + i))})
		}
		switch vrt.Choice(idx("child", i), 5) {
		case 0:
			calls = append(calls, call{K: cInt, I: int64(i)})
			exp = append(exp, jtok{tNumber, strconv.Itoa(i)})
		case 1:
			calls = append(calls, call{K: cStartObj}, call{K: cEndObj})
			exp = append(exp, jtok{K: tStartObj}, jtok{K: tEndObj})
		case 2:
			calls = append(calls, call{K: cStartArr}, call{K: cEndArr})
			exp = append(exp, jtok{K: tStartArr}, jtok{K: tEndArr})
		case 3:
			calls = append(calls, call{K: cStartObj}, call{K: cName, S: "k"}, call{K: cStartArr}, call{K: cBool, B: true}, call{K: cEndArr}, call{K: cEndObj})
			exp = append(exp, jtok{K: tStartObj}, jtok{tName, "k"}, jtok{K: tStartArr}, jtok{K: tTrue}, jtok{K: tEndArr}, jtok{K: tEndObj})
		case 4:
			calls = append(calls, call{K: cStartArr}, call{K: cStartObj}, call{K: cEndObj}, call{K: cString, S: "x"}, call{K: cEndArr})
			exp = append(exp, jtok{K: tStartArr}, jtok{K: tStartObj}, jtok{K: tEndObj}, jtok{tString, "x"}, jtok{K: tEndArr})
		}
	}
	if outer == 0 {
		calls = append(calls, call{K: cEndObj})
		exp = append(exp, jtok{K: tEndObj})
	} else {
		calls = append(calls, call{K: cEndArr})
		exp = append(exp, jtok{K: tEndArr})
	}
	var out plenccodec.JSONOutput
	play(&out, calls)
	data := out.Done()
	vrt.ObserveBytes("json", data)
	toks, ok := jsonParse(data)
	vrt.Assert("output is one valid JSON document", ok)
	if ok {
		vrt.Assert("document equals the call tree", sameTokens(exp, toks))
	}
}

// H15_String: every byte value in every position of a string and a member name.
func H15_String() {
	n := vrt.Choice("len", strLen()+2)
	s := vrt.String("s", n)
	name := vrt.String("name", vrt.Choice("name.len", 2))
	var out plenccodec.JSONOutput
	out.StartObject()
	out.NameField(name)
	out.String(s)
	out.EndObject()
	data := out.Done()
	vrt.ObserveBytes("json", data)
	toks, ok := jsonParse(data)
	vrt.Assert("output is valid JSON for arbitrary bytes", ok)
	if ok {
		vrt.Assert("shape", len(toks) == 4 && toks[1].K == tName && toks[2].K == tString)
		if len(toks) == 4 {
			if utf8Valid(name) {
				vrt.Assert("member name (valid UTF-8) parses back to itself", toks[1].S == name)
			}
			if utf8Valid(s) {
				vrt.Assert("string (valid UTF-8) parses back to itself", toks[2].S == s)
			}
		}
	}
}

// H15_Reset: after Reset the outputter behaves like a new one.
func H15_Reset() {
	var c1, c2 []call
	var e1 []jtok
	symStrings = false
	genValueM("a", 1, false, &c1, &e1)
	// the second document: a handful of fixed shapes (what matters is the state
	// the abandoned first document left behind)
	switch vrt.Choice("second", 6) {
	case 0:
		c2 = []call{{K: cInt, I: 7}}
	case 1:
		c2 = []call{{K: cStartObj}, {K: cEndObj}}
	case 2:
		c2 = []call{{K: cStartArr}, {K: cString, S: "x"}, {K: cBool, B: true}, {K: cEndArr}}
	case 3:
		c2 = []call{{K: cStartObj}, {K: cName, S: "k"}, {K: cStartArr}, {K: cEndArr}, {K: cName, S: "l"}, {K: cInt, I: 1}, {K: cEndObj}}
	case 4:
		c2 = []call{{K: cString, S: "s"}}
	case 5:
		c2 = []call{{K: cStartArr}, {K: cStartObj}, {K: cName, S: "a"}, {K: cF64, F: 1.5}, {K: cEndObj}, {K: cStartArr}, {K: cEndArr}, {K: cEndArr}}
	}
	symStrings = true
	var used plenccodec.JSONOutput
	// the first document may be abandoned anywhere: after any prefix of its calls
	cut := vrt.Choice("cut", len(c1)+1)
	play(&used, c1[:cut])
	if cut == len(c1) && vrt.Choice("done-first", 2) == 1 {
		used.Done()
	}
	used.Reset()
	play(&used, c2)
	got := append([]byte{}, used.Done()...)
	var fresh plenccodec.JSONOutput
	play(&fresh, c2)
	want := fresh.Done()
	vrt.Assert("after Reset the output equals a new outputter's", vrt.BytesEq(got, want))
}

// H15_ResetPairs_T (thorough): both documents generated.
func H15_ResetPairs_T() {
	var c1, c2 []call
	var e1, e2 []jtok
	symStrings = false
	genValueM("a", 1, false, &c1, &e1)
	genValueM("b", 1, false, &c2, &e2)
	symStrings = true
	var used plenccodec.JSONOutput
	play(&used, c1)
	used.Done()
	used.Reset()
	play(&used, c2)
	got := append([]byte{}, used.Done()...)
	var fresh plenccodec.JSONOutput
	play(&fresh, c2)
	vrt.Assert("after Reset the output equals a new outputter's", vrt.BytesEq(got, fresh.Done()))
	_ = e2
}

// H15_ResetOffsets: a re-used outputter must not remember byte offsets of the
// previous document: first and second documents of varying lengths, the
// second ending in empty containers at every offset near the first's length.
func H15_ResetOffsets() {
	names := []string{"", "a", "ab", "abc", "abcd"}
	var used plenccodec.JSONOutput
	var first []call
	switch vrt.Choice("first", 3) {
	case 0:
		first = []call{{K: cStartObj}, {K: cName, S: names[vrt.Choice("n1", 5)]}, {K: cInt, I: int64Corners[1+vrt.Choice("i1", 4)]}, {K: cEndObj}}
	case 1:
		first = []call{{K: cStartArr}, {K: cString, S: names[vrt.Choice("n1", 5)]}, {K: cInt, I: 7}, {K: cEndArr}}
	case 2:
		first = []call{{K: cStartObj}, {K: cName, S: "k"}, {K: cStartArr}, {K: cString, S: names[vrt.Choice("n1", 5)]}, {K: cEndArr}, {K: cEndObj}}
	}
	play(&used, first)
	if vrt.Choice("done-first", 2) == 1 {
		used.Done()
	}
	used.Reset()
	n2 := names[vrt.Choice("n2", 5)]
	var second []call
	switch vrt.Choice("second", 4) {
	case 0:
		second = []call{{K: cStartObj}, {K: cName, S: n2}, {K: cStartObj}, {K: cEndObj}, {K: cEndObj}}
	case 1:
		second = []call{{K: cStartObj}, {K: cName, S: n2}, {K: cStartArr}, {K: cEndArr}, {K: cEndObj}}
	case 2:
		second = []call{{K: cStartArr}, {K: cString, S: n2}, {K: cStartArr}, {K: cEndArr}, {K: cStartObj}, {K: cEndObj}, {K: cEndArr}}
	case 3:
		second = []call{{K: cStartObj}, {K: cName, S: n2}, {K: cInt, I: 5}, {K: cName, S: "z"}, {K: cStartArr}, {K: cEndArr}, {K: cEndObj}}
	}
	play(&used, second)
	got := append([]byte{}, used.Done()...)
	var fresh plenccodec.JSONOutput
	play(&fresh, second)
	vrt.Assert("after Reset the output equals a new outputter's", vrt.BytesEq(got, fresh.Done()))
	_, ok := jsonParse(got)
	vrt.Assert("and is valid JSON", ok)
}

// H15_Floats: every value of floatTable as a float64 and (rounded) as a
// float32, at top level, as an array element after another element and as a
// member value: the text parses back to exactly the same number. The values
// are concrete (enumerated): number formatting is std-lib code that the
// engine executes on constants only.
func H15_Floats() {
	v := floatTable[vrt.Choice("value", len(floatTable))]
	k := cF64
	want := v
	if vrt.Choice("width", 2) == 1 {
		k = cF32
		want = float64(float32(v))
		if math.IsInf(want, 0) {
			vrt.Assume(false)
		}
	}
	num := jtok{tNumber, "f64:" + strconv.FormatUint(math.Float64bits(want), 16)}
	if k == cF32 {
		num = jtok{tNumber, "f32:" + strconv.FormatUint(uint64(math.Float32bits(float32(v))), 16)}
	}
	var calls []call
	var exp []jtok
	switch vrt.Choice("position", 3) {
	case 0:
		calls = []call{{K: k, F: v}}
		exp = []jtok{num}
	case 1:
		calls = []call{{K: cStartArr}, {K: cInt, I: 1}, {K: k, F: v}, {K: k, F: v}, {K: cEndArr}}
		exp = []jtok{{K: tStartArr}, {tNumber, "1"}, num, num, {K: tEndArr}}
	default:
		calls = []call{{K: cStartObj}, {K: cName, S: "a"}, {K: k, F: v}, {K: cName, S: "b"}, {K: cBool, B: true}, {K: cEndObj}}
		exp = []jtok{{K: tStartObj}, {tName, "a"}, num, {tName, "b"}, {K: tTrue}, {K: tEndObj}}
	}
	var out plenccodec.JSONOutput
	play(&out, calls)
	data := out.Done()
	vrt.ObserveBytes("json", data)
	toks, ok := jsonParse(data)
	vrt.Assert("output is one valid JSON document", ok)
	if ok {
		vrt.Assert("number parses back to the same value", sameTokens(exp, toks))
	}
}

var deepDepths = []int{16, 17, 32, 33, 64, 65}

// H15_Deep: nesting far beyond what the call-tree harnesses reach, around the
// depths where a fixed-size or packed state stack would run out (16, 32, 64
// levels): D containers inside each other - all arrays, all objects, or
// alternating - the outermost being an object or array that continues with
// further members / elements after the deep value, and the same one level
// further in.
func H15_Deep() {
	depths := deepDepths
	if vrt.Thorough() {
		depths = []int{8, 9, 15, 16, 17, 18, 31, 32, 33, 34, 63, 64, 65, 66, 127, 128, 129}
	}
	D := depths[vrt.Choice("depth", len(depths))]
	pattern := vrt.Choice("pattern", 3)
	outer := vrt.Choice("outer", 2) // outermost container: 0 object, 1 array
	name := "n\""
	var calls []call
	var exp []jtok
	isObj := func(level int) bool {
		if level == 0 {
			return outer == 0
		}
		switch pattern {
		case 0:
			return false
		case 1:
			return true
		}
		return level%2 == 1
	}
	for l := 0; l < D; l++ {
		if isObj(l) {
			calls = append(calls, call{K: cStartObj}, call{K: cName, S: name})
			exp = append(exp, jtok{K: tStartObj}, jtok{tName, name})
		} else {
			calls = append(calls, call{K: cStartArr})
			exp = append(exp, jtok{K: tStartArr})
		}
	}
	calls = append(calls, call{K: cInt, I: 7})
	exp = append(exp, jtok{tNumber, "7"})
	for l := D - 1; l >= 0; l-- {
		// after the deep value every container gets one more member / element
		if isObj(l) {
			calls = append(calls, call{K: cName, S: "z"}, call{K: cBool, B: true}, call{K: cEndObj})
			exp = append(exp, jtok{tName, "z"}, jtok{K: tTrue}, jtok{K: tEndObj})
		} else {
			calls = append(calls, call{K: cInt, I: 1}, call{K: cEndArr})
			exp = append(exp, jtok{tNumber, "1"}, jtok{K: tEndArr})
		}
	}
	var out plenccodec.JSONOutput
	play(&out, calls)
	data := out.Done()
	vrt.ObserveBytes("json", data)
	toks, ok := jsonParse(data)
	vrt.Assert("output is one valid JSON document", ok)
	if ok {
		vrt.Assert("document equals the call tree", sameTokens(exp, toks))
	}
}
