package props

// C06 extras: the encoding depends on the value only, also when the value is
// mutated in place between two Marshal calls into a re-used buffer.

import (
	"reflect"
	"unsafe"

	"vharness/cat"
	"vharness/vrt"
)

// H06m_MutateBetween: marshal, mutate a nested struct in place, marshal again
// into the re-used buffer: the second result must equal a fresh encoding of
// the mutated value.
func H06m_MutateBetween() {
	setBounds()
	p := newPlenc(cfgDef)
	var x V_TNested
	FillSmall = !vrt.Thorough()
	x.Fill("in")
	FillSmall = false
	// nil buffer first (Marshal measures the value), then the usual
	// "one record, one buffer, both re-used" write loop
	first, err := p.Marshal(nil, &x.V)
	vrt.Assert("first marshal ok", err == nil)
	// mutate the nested struct in place (its encoded size changes)
	x.V.A.Y = vrt.String("newY", vrt.Choice("newY.len", 4))
	x.V.A.X = vrt.Int("newX")
	second, err := p.Marshal(first[:0], &x.V)
	vrt.Assert("second marshal ok", err == nil)
	fresh := newPlenc(cfgDef)
	cp := cat.TNested{A: cat.TIn{X: x.V.A.X, Y: x.V.A.Y}, B: x.V.B}
	want, err := fresh.Marshal(nil, &cp)
	vrt.Assert("fresh marshal ok", err == nil)
	vrt.Assert("re-marshalling a mutated value == encoding of the new value", vrt.BytesEq(second, want))
	vrt.Assert("and equals the documented encoding", vrt.BytesEq(second, x.Ref(nil, refOf(cfgDef, 0))))
}

// H06m_MapMutate: a map with many entries marshalled, one value replaced in
// place (its encoded size changes), marshalled again: value-only dependence.
func H06m_MapMutate() {
	p := newPlenc(cfgDef)
	type row struct {
		M map[string]int `plenc:"1"`
		Z int            `plenc:"2"`
	}
	in := row{M: map[string]int{}, Z: 3}
	keys := []string{"a", "b", "c", "d", "e", "f", "g", "h", "i"}
	for _, k := range keys {
		in.M[k] = 1
	}
	c, cerr := p.CodecForType(reflect.TypeOf(in.M))
	vrt.Assert("codec ok", cerr == nil)
	if cerr != nil {
		return
	}
	mp := *(*unsafe.Pointer)(unsafe.Pointer(&in.M))
	vrt.Assert("Size == len(Append) before the mutation", c.Size(mp, nil) == len(c.Append(nil, mp, nil)))
	first, err := p.Marshal(nil, &in) // nil: Marshal sizes the value itself
	vrt.Assert("first marshal ok", err == nil)
	nv := vrt.Int("nv")
	in.M["e"] = nv
	second, err := p.Marshal(first[:0], &in)
	vrt.Assert("second marshal ok", err == nil)
	fresh := newPlenc(cfgDef)
	var out row
	vrt.Assert("the re-marshalled bytes decode", fresh.Unmarshal(second, &out) == nil)
	vrt.Assert("field after the map", out.Z == 3)
	v, ok := out.M["e"]
	vrt.Assert("replaced value present", ok && len(out.M) == len(keys))
	vrt.Assert("replaced value", vrt.Implies(ok, v == nv))
	vrt.Assert("Size == len(Append) after the mutation", c.Size(mp, nil) == len(c.Append(nil, mp, nil)))
	tag := []byte{0x0b}
	vrt.Assert("Size(tag) == len(Append) after the mutation", c.Size(mp, tag) == len(c.Append(nil, mp, tag)))
}

// the Size == len(Append) clause of the same history belongs to C05
func H05m_MapMutate() { H06m_MapMutate() }
