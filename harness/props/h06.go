package props

// C06 extras: the encoding depends on the value only, also when the value is
// mutated in place between two Marshal calls into a re-used buffer.

import (
	"vharness/cat"
	"vharness/vrt"
)

// H06m_MutateBetween: marshal, mutate a nested struct in place, marshal again
// into the re-used buffer: the second result must equal a fresh encoding of
// the mutated value.
func H06m_MutateBetween() {
	setBounds()
	p := newPlenc(cfgDef)
	var x V_TNested
	FillSmall = !vrt.Thorough()
	x.Fill("in")
	FillSmall = false
	buf := make([]byte, 0, 64)
	first, err := p.Marshal(buf, &x.V)
	vrt.Assert("first marshal ok", err == nil)
	// mutate the nested struct in place (its encoded size changes)
	x.V.A.Y = vrt.String("newY", vrt.Choice("newY.len", 4))
	x.V.A.X = vrt.Int("newX")
	second, err := p.Marshal(first[:0], &x.V)
	vrt.Assert("second marshal ok", err == nil)
	fresh := newPlenc(cfgDef)
	cp := cat.TNested{A: cat.TIn{X: x.V.A.X, Y: x.V.A.Y}, B: x.V.B}
	want, err := fresh.Marshal(nil, &cp)
	vrt.Assert("fresh marshal ok", err == nil)
	vrt.Assert("re-marshalling a mutated value == encoding of the new value", vrt.BytesEq(second, want))
	vrt.Assert("and equals the documented encoding", vrt.BytesEq(second, x.Ref(nil, refOf(cfgDef, 0))))
}
