package props

// C18 — varint, zig-zag, tag and skip primitives, all 64-bit values.

import (
	"github.com/philpearl/plenc/plenccore"
	"vharness/vrt"
)

// refVarint is the protobuf base-128 varint, written from the encoding guide.
func refVarint(buf []byte, v uint64) []byte {
	for i := 0; i < 10; i++ {
		b := byte(v & 0x7f)
		v >>= 7
		if v == 0 {
			return append(buf, b)
		}
		buf = append(buf, b|0x80)
	}
	return buf
}

// refVarintLen: number of 7-bit groups needed.
func refVarintLen(v uint64) int {
	n := 1
	for i := 0; i < 9; i++ {
		v >>= 7
		if v == 0 {
			return n
		}
		n++
	}
	return n
}

// refReadVarint decodes a varint per the protobuf spec: at most 10 bytes, the
// 10th carrying at most one bit. n>0: bytes consumed; n==0: truncated;
// n<0: overflow / too long.
func refReadVarint(data []byte) (v uint64, n int) {
	var shift uint
	for i := 0; i < len(data); i++ {
		b := data[i]
		if i == 9 {
			if b > 1 {
				return 0, -1
			}
			return v | uint64(b)<<63, 10
		}
		if b < 0x80 {
			return v | uint64(b)<<shift, i + 1
		}
		v |= uint64(b&0x7f) << shift
		shift += 7
	}
	return 0, 0
}

func refZigZag(n int64) uint64 { return uint64(n<<1) ^ uint64(n>>63) }

// H18_VarUintRoundTrip: append/read/size agree with each other and with the
// reference encoding for every uint64.
func H18_VarUintRoundTrip() {
	v := vrt.U64("v")
	enc := plenccore.AppendVarUint(nil, v)
	ref := refVarint(nil, v)
	vrt.ObserveBytes("enc", enc)
	vrt.Assert("bytes==reference", vrt.BytesEq(enc, ref))
	vrt.Assert("size==len", plenccore.SizeVarUint(v) == len(enc))
	got, n := plenccore.ReadVarUint(enc)
	vrt.Observe("n", uint64(n))
	vrt.Assert("read value", got == v)
	vrt.Assert("read length", n == len(enc))
}

// H18_VarUintPrefix: appending to a non-empty buffer (with and without spare
// capacity) keeps the prefix and appends the same bytes.
func H18_VarUintPrefix() {
	v := vrt.U64("v")
	pl := 1 + vrt.Choice("prefixlen", 3)
	prefix := vrt.Bytes("p", pl)
	spare := vrt.Choice("spare", 3) * 5 // 0, 5, 10 bytes of spare capacity
	buf := make([]byte, pl, pl+spare)
	copy(buf, prefix)
	out := plenccore.AppendVarUint(buf, v)
	ref := refVarint(nil, v)
	vrt.Assert("length", len(out) == pl+len(ref))
	if len(out) == pl+len(ref) {
		vrt.Assert("prefix kept", vrt.BytesEq(out[:pl], prefix))
		vrt.Assert("suffix", vrt.BytesEq(out[pl:], ref))
		vrt.ObserveBytes("out", out)
	}
	vrt.Assert("input prefix untouched", vrt.BytesEq(buf[:pl], prefix))
}

// H18_ZigZag: bijection and agreement with the protobuf formula.
func H18_ZigZag() {
	i := vrt.I64("i")
	u := vrt.U64("u")
	z := plenccore.ZigZag(i)
	vrt.Observe("z", z)
	vrt.Assert("zigzag==protobuf", z == refZigZag(i))
	vrt.Assert("zagzig(zigzag(i))==i", plenccore.ZagZig(z) == i)
	vrt.Assert("zigzag(zagzig(u))==u", plenccore.ZigZag(plenccore.ZagZig(u)) == u)
	// small magnitudes map to small codes: 0,-1,1,-2,... -> 0,1,2,3,...
	vrt.Assert("non-negative -> even", vrt.Implies(i >= 0, z == uint64(i)*2))
	vrt.Assert("negative -> odd", vrt.Implies(i < 0, z == uint64(-(i+1))*2+1))
}

// H18_VarIntSizeClasses: -2^(7k-1) <= i < 2^(7k-1)  <=>  SizeVarInt(i) <= k.
func H18_VarIntSizeClasses() {
	i := vrt.I64("i")
	s := plenccore.SizeVarInt(i)
	vrt.Observe("size", uint64(s))
	vrt.Assert("1..10", vrt.And(s >= 1, s <= 10))
	for k := 1; k <= 9; k++ {
		lim := int64(1) << uint(7*k-1)
		in := vrt.And(i >= -lim, i < lim)
		vrt.Assert("class", in == (s <= k))
	}
	enc := plenccore.AppendVarInt(nil, i)
	vrt.Assert("size==len", s == len(enc))
	got, n := plenccore.ReadVarInt(enc)
	vrt.Assert("read value", got == i)
	vrt.Assert("read length", n == len(enc))
	vrt.Assert("bytes==reference", vrt.BytesEq(enc, refVarint(nil, refZigZag(i))))
}

func tagHarness(maxIdxBits uint) {
	wt := plenccore.WireType(vrt.I8("wt"))
	idx := vrt.Int("idx")
	vrt.Assume(vrt.And(wt >= 0, wt <= 7))
	vrt.Assume(vrt.And(idx >= 0, idx <= 1<<maxIdxBits))
	enc := plenccore.AppendTag(nil, wt, idx)
	vrt.ObserveBytes("tag", enc)
	vrt.Assert("bytes==varint(idx<<3|wt)", vrt.BytesEq(enc, refVarint(nil, uint64(idx)<<3|uint64(wt))))
	vrt.Assert("size==len", plenccore.SizeTag(wt, idx) == len(enc))
	gwt, gidx, n := plenccore.ReadTag(enc)
	vrt.Assert("wire type", gwt == wt)
	vrt.Assert("index", gidx == idx)
	vrt.Assert("length", n == len(enc))
}

// H18_Tag: tags round-trip for every wire type and index up to 2^28.
func H18_Tag() { tagHarness(28) }

// H18_TagWide_T: the same up to 2^60 (thorough tier).
func H18_TagWide_T() { tagHarness(60) }

// H18_ReadVarUintMalformed: on arbitrary bytes ReadVarUint agrees with the
// reference decoder on value, consumed length and on which inputs are bad.
func readMalformed(maxLen int) {
	n := vrt.Choice("len", maxLen+1)
	data := vrt.Bytes("d", n)
	v, k := plenccore.ReadVarUint(data)
	rv, rk := refReadVarint(data)
	vrt.Observe("k", uint64(int64(k)))
	vrt.Assert("bad inputs rejected", (rk <= 0) == (k <= 0))
	vrt.Assert("consumed", vrt.Implies(rk > 0, k == rk))
	vrt.Assert("value", vrt.Implies(rk > 0, v == rv))
	vrt.Assert("never over-reads", k <= len(data))
}

func H18_ReadVarUintMalformed() { readMalformed(4) }

func H18_ReadVarUintMalformed_T() { readMalformed(11) }

// refSkip is the reference field skipper. ok=false: malformed/truncated.
func refSkip(data []byte, wt int) (n int, ok bool) {
	switch wt {
	case 0:
		for i := 0; i < len(data) && i < 10; i++ {
			if data[i] < 0x80 {
				return i + 1, true
			}
		}
		return 0, false
	case 1:
		return 8, len(data) >= 8
	case 5:
		return 4, len(data) >= 4
	case 2:
		l, k := refReadVarint(data)
		if k <= 0 || l > uint64(len(data)-k) {
			return 0, false
		}
		return k + int(l), true
	case 3:
		count, k := refReadVarint(data)
		if k <= 0 {
			return 0, false
		}
		off := k
		for i := uint64(0); i < count; i++ {
			if off >= len(data) {
				return 0, false
			}
			l, k := refReadVarint(data[off:])
			if k <= 0 || l > uint64(len(data)-off-k) {
				return 0, false
			}
			off += k + int(l)
		}
		return off, true
	}
	return 0, false
}

func skipHarness(maxLen int) {
	wt := vrt.Choice("wt", 8)
	n := vrt.Choice("len", maxLen+1)
	data := vrt.Bytes("d", n)
	vrt.LoopBound(maxLen + 3)
	got, err := plenccore.Skip(data, plenccore.WireType(wt))
	rn, ok := refSkip(data, wt)
	vrt.Observe("got", uint64(int64(got)))
	vrt.Assert("malformed or truncated => error", vrt.Implies(!ok, err != nil))
	vrt.Assert("nil error => within input", vrt.Implies(err == nil, vrt.And(got > 0, got <= len(data))))
	vrt.Assert("well-formed => exact length", vrt.Implies(ok, vrt.And(err == nil, got == rn)))
}

// H18_SkipLongPrefix: length-delimited and counted fields whose length / count
// varint is 9 or 10 bytes long (values of 2^56 and above, where signed
// arithmetic on the end offset overflows).
func H18_SkipLongPrefix() {
	wt := 2 + vrt.Choice("wt", 2)
	pl := 9 + vrt.Choice("prefix", 2)
	rest := vrt.Choice("rest", 3)
	data := vrt.Bytes("d", pl+rest)
	for i := 0; i < pl-1; i++ {
		vrt.Assume(data[i] >= 0x80)
	}
	vrt.Assume(data[pl-1] < 0x80)
	vrt.LoopBound(pl + rest + 3)
	got, err := plenccore.Skip(data, plenccore.WireType(wt))
	rn, ok := refSkip(data, wt)
	vrt.Observe("got", uint64(int64(got)))
	vrt.Assert("malformed or truncated => error", vrt.Implies(!ok, err != nil))
	vrt.Assert("nil error => within input", vrt.Implies(err == nil, vrt.And(got > 0, got <= len(data))))
	vrt.Assert("well-formed => exact length", vrt.Implies(ok, vrt.And(err == nil, got == rn)))
}

// H18_Skip: every wire type, every byte string up to 6 bytes (quick).
func H18_Skip() { skipHarness(6) }

// H18_Skip_T: up to 10 bytes (thorough).
func H18_Skip_T() { skipHarness(10) }
