package props

import (
	"github.com/philpearl/plenc/plenccore"
	"vharness/vrt"
)

// refVarint is the protobuf base-128 varint, written from the encoding guide.
func refVarint(buf []byte, v uint64) []byte {
	for i := 0; i < 10; i++ {
		b := byte(v & 0x7f)
		v >>= 7
		if v == 0 {
			return append(buf, b)
		}
		buf = append(buf, b|0x80)
	}
	return buf
}

// H18_VarUintRoundTrip: append/read/size agree with each other and with the
// reference encoding for every uint64.
func H18_VarUintRoundTrip() {
	v := vrt.U64("v")
	enc := plenccore.AppendVarUint(nil, v)
	ref := refVarint(nil, v)
	vrt.ObserveBytes("enc", enc)
	vrt.Assert("bytes==reference", vrt.BytesEq(enc, ref))
	vrt.Assert("size==len", plenccore.SizeVarUint(v) == len(enc))
	got, n := plenccore.ReadVarUint(enc)
	vrt.Observe("n", uint64(n))
	vrt.Assert("read value", got == v)
	vrt.Assert("read length", n == len(enc))
}
