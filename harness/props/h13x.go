package props

// C13 extras: long elements, and descriptors of differently configured instances.

import (
	"reflect"
	"time"

	"github.com/philpearl/plenc/plenccodec"
	"vharness/vrt"
)

// H13b_LongElement: slice elements whose encoded size sits on a length-prefix
// boundary, walked with the descriptor.
func H13b_LongElement() {
	n := []int{127, 128, 129, 256, 16384}[vrt.Choice("len", 5)]
	type row struct {
		L []string    `plenc:"1"`
		F [][]float64 `plenc:"2"`
		Z int         `plenc:"3"`
	}
	in := row{L: []string{vrt.String("s", n), "x"}, F: [][]float64{make([]float64, 16), {1.5}}, Z: smallSym("Z")}
	p := newPlenc(cfgDef)
	data, err := p.Marshal(nil, &in)
	vrt.Assert("marshal ok", err == nil)
	c, err := p.CodecForType(reflect.TypeOf(in))
	vrt.Assert("codec ok", err == nil)
	if err != nil {
		return
	}
	d := c.Descriptor()
	var r recOut
	vrt.Assert("descriptor walk ok", d.Read(&r, data) == nil)
	exp := []ev{{K: evStartObj}, {K: evName, S: "L"}, {K: evStartArr}, {K: evString, S: in.L[0]}, {K: evString, S: "x"}, {K: evEndArr},
		{K: evName, S: "F"}, {K: evStartArr}, {K: evStartArr}}
	for i := 0; i < 16; i++ {
		exp = append(exp, ev{K: evF64})
	}
	exp = append(exp, ev{K: evEndArr}, ev{K: evStartArr}, ev{K: evF64, U: 0x3ff8000000000000}, ev{K: evEndArr}, ev{K: evEndArr},
		ev{K: evName, S: "Z"}, ev{K: evInt, U: uint64(in.Z)}, ev{K: evEndObj})
	vrt.Assert("rendered content == value", eqEvents(exp, r.evs))
}

// H13i_TwoInstances: the descriptor belongs to the instance that built the
// codec: an instance with a different codec registered for a field type must
// describe (and walk) its own encoding.
func H13i_TwoInstances() {
	type row struct {
		T time.Time `plenc:"1"`
		N int       `plenc:"2"`
	}
	pa := newPlenc(cfgDef)
	pb := newPlencBQ()
	order := vrt.Choice("order", 2)
	var da, db plenccodec.Descriptor
	get := func(first bool) {
		if first {
			c, err := pa.CodecForType(reflect.TypeOf(row{}))
			vrt.Assert("codec a ok", err == nil)
			if err == nil {
				da = c.Descriptor()
			}
		} else {
			c, err := pb.CodecForType(reflect.TypeOf(row{}))
			vrt.Assert("codec b ok", err == nil)
			if err == nil {
				db = c.Descriptor()
			}
		}
	}
	get(order == 0)
	get(order != 0)
	vrt.Assert("default instance describes its time field as Time", len(da.Elements) == 2 && da.Elements[0].Type == plenccodec.FieldTypeTime)
	vrt.Assert("the BigQuery instance describes it as a flat-int timestamp", len(db.Elements) == 2 && db.Elements[0].Type == plenccodec.FieldTypeFlatInt && db.Elements[0].LogicalType == plenccodec.LogicalTypeTimestamp)
	in := row{T: time.Unix(1700000000, 5000), N: smallSym("N")}
	data, err := pb.Marshal(nil, &in)
	vrt.Assert("marshal ok", err == nil)
	var r recOut
	vrt.Assert("walk with the instance's own descriptor ok", db.Read(&r, data) == nil)
	exp := []ev{{K: evStartObj}, {K: evName, S: "T"}, {K: evTime, U: 1700000000, N: 5000}, {K: evName, S: "N"}, {K: evInt, U: uint64(in.N)}, {K: evEndObj}}
	vrt.Assert("rendered content == value", eqEvents(exp, r.evs))
}

func H14i_TwoInstances() { H13i_TwoInstances() }
