package props

// C11 extras: decoding into a re-used, already populated map.

import (
	"vharness/cat"
	"vharness/vrt"
)

// H11m_ReusedMap: the target map already holds the key that is being decoded;
// after the caller overwrites its buffer the map must still be keyed by the
// original bytes.
func H11m_ReusedMap() {
	p := newPlenc(cfgDef)
	k := vrt.String("k", 1+vrt.Choice("k.len", 2))
	v := smallSym("v")
	in := cat.TMapSI{M: map[string]int{k: v}}
	data, err := p.Marshal(nil, &in)
	vrt.Assert("marshal ok", err == nil)
	tgt := cat.TMapSI{M: map[string]int{}}
	if vrt.Choice("prepopulated", 2) == 1 {
		tgt.M[string(append([]byte{}, k...))] = 99
	}
	vrt.Assert("unmarshal ok", p.Unmarshal(data, &tgt) == nil)
	for i := range data {
		data[i] = vrt.U8("scribble")
	}
	got, ok := tgt.M[k]
	vrt.Assert("entry still found under its key after the buffer was overwritten", ok)
	vrt.Assert("value", vrt.Implies(ok, got == v))
	n := 0
	allEq := true
	for kk := range tgt.M {
		n++
		allEq = vrt.And(allEq, kk == k)
	}
	vrt.Assert("the map's only key still equals the decoded key", n == 1 && allEq)
}

// the long interning history also decides C11's "no aliasing of the input" for interned strings
func H11m_ManyValues() { H19_ManyValues() }
