package props

// C08 — type definitions are validated: a working codec or an error, never a
// panic. (a) struct definitions whose plenc tag texts are arbitrary byte
// strings; (b) unsupported kinds and nestings in every position.

import (
	"reflect"

	"github.com/philpearl/plenc"
	"vharness/cat"
	"vharness/vrt"
)

// refParseTag is the documented tag grammar: "-" skips the field; otherwise
// <index>[,<option>] where <index> is a decimal integer (optional sign) that
// must not be negative.
func refParseTag(tag string) (index int, opt string, skip, ok bool) {
	if tag == "-" {
		return 0, "", true, true
	}
	num := tag
	for i := 0; i < len(tag); i++ {
		if tag[i] == ',' {
			num, opt = tag[:i], tag[i+1:]
			break
		}
	}
	neg := false
	if len(num) > 0 && (num[0] == '+' || num[0] == '-') {
		neg = num[0] == '-'
		num = num[1:]
	}
	if len(num) == 0 {
		return 0, "", false, false
	}
	n := 0
	for i := 0; i < len(num); i++ {
		c := num[i]
		if c < '0' || c > '9' {
			return 0, "", false, false
		}
		n = n*10 + int(c-'0')
	}
	if neg {
		n = -n
	}
	if n < 0 {
		return 0, "", false, false
	}
	return n, opt, false, true
}

type fieldKind struct {
	T     reflect.Type
	basic bool // options are looked up in the registry for this type
	opts  []string
}

func fieldKinds() []fieldKind {
	return []fieldKind{
		{T: reflect.TypeOf(int(0)), basic: true, opts: []string{"", "flat", "intern"}},
		{T: reflect.TypeOf(""), basic: true, opts: []string{"", "intern"}},
		{T: reflect.TypeOf([]int(nil))},
		{T: reflect.TypeOf(cat.TIn{})},
	}
}

func maxTagLen() int {
	if vrt.Thorough() {
		return 4
	}
	return 3
}

func tagsHarness(nf int, lens []int, nkinds int) {
	p := new(plenc.Plenc)
	p.RegisterDefaultCodecs()
	kinds := fieldKinds()
	names := []string{"A", "B", "C"}
	specs := make([]vrt.FieldSpec, nf)
	type exp struct {
		idx      int
		opt      string
		skip, ok bool
		missing  bool
		kind     fieldKind
	}
	exps := make([]exp, nf)
	for i := 0; i < nf; i++ {
		k := kinds[vrt.Choice(idx("kind", i), nkinds)]
		has := vrt.Choice(idx("hastag", i), 4) != 0 // one in four: no plenc tag at all
		txt := ""
		if has {
			txt = vrt.String(idx("tag", i), vrt.Choice(idx("tag.len", i), lens[i]+1))
		}
		specs[i] = vrt.FieldSpec{Name: names[i], Type: k.T, Plenc: txt, HasPlenc: has}
		e := exp{kind: k, missing: !has || len(txt) == 0}
		if !e.missing {
			e.idx, e.opt, e.skip, e.ok = refParseTag(txt)
			if e.ok && !e.skip {
				// stated bound: plenc sizes its index table by the largest
				// index, and table sizes are concrete per path in the engine
				vrt.Assume(e.idx <= 15)
			}
		}
		exps[i] = e
	}
	t := vrt.StructOf(specs)
	c, err := p.CodecForType(t)
	vrt.Cover("CodecForType returned")
	// what the documented rules say
	bad := false
	for i, e := range exps {
		if e.missing || !e.ok {
			bad = true
			continue
		}
		if e.skip {
			continue
		}
		if e.kind.basic {
			known := false
			for _, o := range e.kind.opts {
				if e.opt == o {
					known = true
				}
			}
			if !known {
				bad = true
			}
		}
		for j := 0; j < i; j++ {
			f := exps[j]
			if !f.missing && f.ok && !f.skip && f.idx == e.idx {
				bad = true
			}
		}
	}
	vrt.Assert("invalid definition => error", vrt.Implies(bad, err != nil))
	vrt.Assert("valid definition => codec", vrt.Implies(!bad, err == nil && c != nil))
	if err == nil && c != nil && !bad {
		// C14: the descriptor has one element per encoded field, in
		// declaration order, carrying the parsed index and the field name
		d := c.Descriptor()
		n := 0
		ok := true
		for i, e := range exps {
			if e.skip {
				continue
			}
			if n < len(d.Elements) {
				ok = ok && d.Elements[n].Index == e.idx && d.Elements[n].Name == names[i]
			}
			n++
		}
		vrt.Assert("descriptor: one element per encoded field", len(d.Elements) == n)
		vrt.Assert("descriptor: index and name of every field", ok)
	}
}

// H08s_Tags1: one field, tag text of up to 3 (4) arbitrary bytes.
func H08s_Tags1() { tagsHarness(1, []int{maxTagLen()}, 4) }

// H08s_Tags2: two fields (duplicate indexes become possible).
func H08s_Tags2() { tagsHarness(2, []int{1, 2}, 2) }

// H08s_Tags2_T: thorough: two fields of all four field kinds.
func H08s_Tags2_T() { tagsHarness(2, []int{1, 2}, 4) }

// ---- (b) unsupported kinds and nestings, in every position ----

type badC64 struct {
	A complex64 `plenc:"1"`
}
type badArr struct {
	A [2]int `plenc:"1"`
}
type badChan struct {
	A chan int `plenc:"1"`
}
type badFunc struct {
	A func() `plenc:"1"`
}
type badIface struct {
	A interface{} `plenc:"1"`
}
type badPtrFloats struct {
	A []*float64 `plenc:"1"`
}
type badPtrPtrFloats struct {
	A []**float64 `plenc:"1"`
}
type badPtrFloat32s struct {
	A map[string][]*float32 `plenc:"1"`
}
type badSliceSliceStr struct {
	A [][]string `plenc:"1"`
}
type badMapMap struct {
	A map[string]map[string]int `plenc:"1"`
}
type badPtrMap struct {
	A *map[string]int `plenc:"1"`
}
type badSliceOfMaps struct {
	A []map[string]int `plenc:"1"`
}
type badUintptr struct {
	A uintptr `plenc:"1"`
}
type badNested struct {
	A int    `plenc:"1"`
	B badC64 `plenc:"2"`
}
type badElem struct {
	A []badArr `plenc:"1"`
}
type badMapVal struct {
	A map[string]badFunc `plenc:"1"`
}
type badMapKey struct {
	A map[badIface]int `plenc:"1"`
}
type badPtrTarget struct {
	A *badChan `plenc:"1"`
}
type badNoTag struct {
	A int `plenc:"1"`
	B int
}
type badDup struct {
	A int `plenc:"1"`
	B int `plenc:"1"`
}
type badOpt struct {
	A string `plenc:"1,flat"`
}
type badDup64 struct {
	A int `plenc:"64"`
	B int `plenc:"64"`
}
type badDup1000 struct {
	A int    `plenc:"3"`
	B string `plenc:"1000"`
	C int    `plenc:"1000"`
}
type badPtrMapProto struct {
	A *map[string]int `plenc:"1,proto"`
}
type badMapMapProto struct {
	A map[string]map[string]int `plenc:"1,proto"`
}

// okMapSliceVal: nestings that look unusual but are supported must work.
type okMapSliceVal struct {
	A map[string][]string `plenc:"1"`
	B map[int][]cat.TIn   `plenc:"2"`
}

// recursive type whose construction fails half-way (field X has no tag)
type badRec struct {
	P *badRec `plenc:"1"`
	X int
}

// mustReject: CodecForType returns an error (and does not panic); the failure
// must not leave a broken codec behind for the derived types.
func mustReject(p *plenc.Plenc, v interface{}) {
	t := reflect.TypeOf(v)
	_, err := p.CodecForType(t)
	vrt.Assert("rejected with an error: "+t.Name(), err != nil)
	_, err = p.Marshal(nil, v)
	vrt.Assert("Marshal reports the error: "+t.Name(), err != nil)
	_, err = p.CodecForType(reflect.PtrTo(t))
	vrt.Assert("pointer to it rejected too: "+t.Name(), err != nil)
	_, err = p.CodecForType(reflect.SliceOf(t))
	vrt.Assert("slice of it rejected too: "+t.Name(), err != nil)
}

// H08u_Kinds: every unsupported kind, in field / element / map / pointer positions.
func H08u_Kinds() {
	p := new(plenc.Plenc)
	p.RegisterDefaultCodecs()
	switch vrt.Choice("type", 25) {
	case 0:
		mustReject(p, badC64{})
	case 1:
		mustReject(p, badArr{})
	case 2:
		mustReject(p, badChan{})
	case 3:
		mustReject(p, badFunc{})
	case 4:
		mustReject(p, badIface{})
	case 5:
		mustReject(p, badPtrFloats{})
	case 6:
		mustReject(p, badSliceSliceStr{})
	case 7:
		mustReject(p, badMapMap{})
	case 8:
		mustReject(p, badPtrMap{})
	case 9:
		mustReject(p, badSliceOfMaps{})
	case 10:
		mustReject(p, badUintptr{})
	case 11:
		mustReject(p, badNested{})
	case 12:
		mustReject(p, badElem{})
	case 13:
		mustReject(p, badMapVal{})
	case 14:
		mustReject(p, badMapKey{})
	case 15:
		mustReject(p, badPtrTarget{})
	case 16:
		mustReject(p, badNoTag{})
	case 17:
		mustReject(p, badDup{})
	case 18:
		mustReject(p, badOpt{})
	case 19:
		mustRejectOrWork(p, &badPtrPtrFloats{})
	case 20:
		mustReject(p, badPtrFloat32s{})
	case 21:
		mustReject(p, badDup64{})
	case 22:
		mustReject(p, badDup1000{})
	case 23:
		mustReject(p, badPtrMapProto{})
	case 24:
		mustReject(p, badMapMapProto{})
	}
}

// H08u_Accepted: unusual but accepted nestings really work (accepted => usable).
func H08u_Accepted() {
	p := new(plenc.Plenc)
	p.RegisterDefaultCodecs()
	s := vrt.String("s", vrt.Choice("s.len", 2))
	n := vrt.Int("n")
	vrt.Assume(vrt.And(n >= -64, n < 64))
	in := okMapSliceVal{A: map[string][]string{"k": {s, "x"}}, B: map[int][]cat.TIn{n: {{X: n, Y: s}}}}
	data, err := p.Marshal(nil, &in)
	vrt.Assert("marshal ok", err == nil)
	var out okMapSliceVal
	vrt.Assert("unmarshal ok", p.Unmarshal(data, &out) == nil)
	a := out.A["k"]
	vrt.Assert("map of string slices", len(a) == 2 && vrt.And(a[0] == s, a[1] == "x"))
	b, ok := out.B[n]
	vrt.Assert("map of struct slices", ok && len(b) == 1 && vrt.And(b[0].X == n, b[0].Y == s))
}

// H08u_FailedBuild: after the construction of a recursive type fails, asking
// for the types derived from it must fail as well (no half-built codec is
// left behind in the registry).
func H08u_FailedBuild() {
	p := new(plenc.Plenc)
	p.RegisterDefaultCodecs()
	_, err := p.CodecForType(reflect.TypeOf(badRec{}))
	vrt.Assert("recursive type with an untagged field rejected", err != nil)
	_, err = p.CodecForType(reflect.TypeOf(&badRec{}))
	vrt.Assert("pointer to it rejected afterwards", err != nil)
	var v badRec
	_, err = p.Marshal(nil, &v)
	vrt.Assert("Marshal of it rejected afterwards", err != nil)
}

// H08u_Skipped: unexported and "-" fields are never encoded nor written.
func H08u_Skipped() {
	p := new(plenc.Plenc)
	p.RegisterDefaultCodecs()
	var in cat.TUnexp
	in.SetUnexported(vrt.Int("a"))
	in.B = vrt.Int("B")
	in.C = vrt.Int("C")
	in.D = vrt.String("D", vrt.Choice("D.len", 2))
	vrt.Assume(vrt.And(in.B >= -64, in.B < 64))
	data, err := p.Marshal(nil, &in)
	vrt.Assert("marshal ok", err == nil)
	var ref []byte
	if in.B != 0 {
		ref = append(refTag(ref, 0, 1), refVarint(nil, refZigZag(int64(in.B)))...)
	}
	if len(in.D) != 0 {
		ref = refLenField(ref, 2, []byte(in.D))
	}
	vrt.Assert("skipped fields are not in the encoding", vrt.BytesEq(data, ref))
	var out cat.TUnexp
	pa, pc := vrt.Int("prior.a"), vrt.Int("prior.C")
	out.SetUnexported(pa)
	out.C = pc
	vrt.Assert("unmarshal ok", p.Unmarshal(data, &out) == nil)
	vrt.Assert("skipped fields are never written", vrt.And(out.Unexported() == pa, out.C == pc))
}

// mustRejectOrWork: the definition is either rejected, or the codec handed
// out really works on a zero and on a populated value (accepted => usable).
func mustRejectOrWork(p *plenc.Plenc, v *badPtrPtrFloats) {
	_, err := p.CodecForType(reflect.TypeOf(*v))
	if err != nil {
		vrt.Cover("rejected")
		return
	}
	f := 1.5
	pf := &f
	v.A = []**float64{&pf}
	data, err := p.Marshal(nil, v)
	vrt.Assert("accepted definition marshals", err == nil)
	var out badPtrPtrFloats
	vrt.Assert("accepted definition unmarshals", p.Unmarshal(data, &out) == nil)
	vrt.Assert("accepted definition round-trips", len(out.A) == 1 && out.A[0] != nil && *out.A[0] != nil && **out.A[0] == 1.5)
}
