package props

// C04 support: decoding arbitrary bytes is total.

import (
	"reflect"
	"time"

	"github.com/philpearl/plenc"
	"github.com/philpearl/plenc/plenccodec"
	"vharness/vrt"
)

func maxDecodeLen() int {
	if vrt.Thorough() {
		return 6
	}
	return 4
}

// nopOut is an Outputter that discards everything (descriptor walks).
type nopOut struct{}

func (nopOut) StartObject()     {}
func (nopOut) EndObject()       {}
func (nopOut) StartArray()      {}
func (nopOut) EndArray()        {}
func (nopOut) NameField(string) {}
func (nopOut) Int64(int64)      {}
func (nopOut) Uint64(uint64)    {}
func (nopOut) Float64(float64)  {}
func (nopOut) Float32(float32)  {}
func (nopOut) String(string)    {}
func (nopOut) Bool(bool)        {}
func (nopOut) Time(time.Time)   {}
func (nopOut) Raw(string)       {}

var _ plenccodec.Outputter = nopOut{}

// hostileInput returns an arbitrary byte string of length <= maxDecodeLen, with
// or without spare capacity behind it, and arms the totality obligations:
// loop unwinding bound len+16 and an allocation budget linear in the length.
// extraLen: targets with few paths per byte get one more byte of input.
var extraLen int

func hostileInput() []byte {
	n := vrt.Choice("len", maxDecodeLen()+extraLen+1)
	tail := vrt.Choice("cap", 2) * 4
	data := vrt.BytesTail("d", n, tail)
	vrt.LoopBound(n + 16)
	vrt.AllocBudget(int64(4096 * (n + 1)))
	return data
}

// decodeTotal is the body shared by all H04_<T> harnesses. fresh returns a
// pointer to a new zero target.
func decodeTotal(p *plenc.Plenc, fresh func() interface{}) {
	// build the codec first: construction is not part of the decode obligations
	t0 := fresh()
	if _, err := p.CodecForType(reflect.TypeOf(t0).Elem()); err != nil {
		vrt.Assert("codec built", false)
		return
	}
	data := hostileInput()
	out := fresh()
	var err error
	vrt.Measure(func() { err = p.Unmarshal(data, out) })
	vrt.Cover("returned")
	vrt.NativeOnly(func() {
		// differential check natively: bytes behind the input must not matter
		vrt.TailFill = 0x5A
		d2 := append(make([]byte, 0, cap(data)), data...)
		t := d2[len(d2):cap(d2)]
		for i := range t {
			t[i] = 0x5A
		}
		out2 := fresh()
		err2 := p.Unmarshal(d2, out2)
		vrt.Assert("no read outside the input", (err == nil) == (err2 == nil) && (err != nil || reflect.DeepEqual(out, out2)))
		vrt.TailFill = 0xA5
	})
}

func describeTotal(p *plenc.Plenc, fresh func() interface{}) {
	c, err := p.CodecForType(reflect.TypeOf(fresh()).Elem())
	if err != nil {
		vrt.Assert("codec built", false)
		return
	}
	d := c.Descriptor()
	data := hostileInput()
	vrt.Measure(func() { _ = d.Read(nopOut{}, data) })
	vrt.Cover("returned")
}

// decodeTotalReused: the same obligations when the target already holds data
// (slices with spare capacity, non-nil maps and pointers).
func decodeTotalReused(p *plenc.Plenc, used func() interface{}) {
	t0 := used()
	if _, err := p.CodecForType(reflect.TypeOf(t0).Elem()); err != nil {
		vrt.Assert("codec built", false)
		return
	}
	data := hostileInput()
	out := used()
	vrt.Measure(func() { _ = p.Unmarshal(data, out) })
	vrt.Cover("returned")
}

type reusedTarget struct {
	A []int          `plenc:"1"`
	B []string       `plenc:"2"`
	C []float32      `plenc:"3"`
	M map[string]int `plenc:"4"`
	P *int           `plenc:"5"`
}

// H04r_ReusedStruct / H04r_ReusedSlices: hostile bytes into re-used targets.
func H04r_ReusedStruct() {
	decodeTotalReused(newPlenc(cfgDef), func() interface{} {
		n := 7
		return &reusedTarget{A: make([]int, 1, 8), B: make([]string, 2, 4), C: make([]float32, 0, 4), M: map[string]int{"k": 1}, P: &n}
	})
}

func H04r_ReusedInts() {
	extraLen = 1
	decodeTotalReused(newPlenc(cfgDef), func() interface{} { s := make([]int, 1, 8); return &s })
	extraLen = 0
}

func H04r_ReusedStrings() {
	extraLen = 1
	decodeTotalReused(newPlenc(cfgDef), func() interface{} { s := make([]string, 1, 4); return &s })
	extraLen = 0
}
