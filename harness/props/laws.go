package props

import (
	"unsafe"

	"github.com/philpearl/plenc/plenccodec"
	"github.com/philpearl/plenc/plenccore"
	"vharness/vrt"
)

// rootI is what every generated V_<T> offers to the hand-written harness bodies.
type rootI interface {
	NMapEntries() int
	Omitted() bool
	Ref(buf []byte, c refCfg) []byte
	NFields() int
}

// encMatches: got is the documented encoding of x (for some rotation of the
// insertion order of its map entries). base is Marshal(nil, &v); with at most
// one map entry the comparison is byte-for-byte against base.
func encMatches(x rootI, c cfgT, got, base []byte) bool {
	n := x.NMapEntries()
	if n <= 1 {
		return vrt.BytesEq(got, base)
	}
	ok := false
	for r := 0; r < n; r++ {
		var ref []byte
		if !x.Omitted() {
			ref = x.Ref(nil, refOf(c, r))
		}
		ok = vrt.Or(ok, vrt.BytesEq(got, ref))
	}
	return ok
}

func isRepeatedForm(c plenccodec.Codec) bool {
	switch c.(type) {
	case plenccodec.ProtoSliceWrapper, plenccodec.ProtoMapCodec:
		return true
	}
	return false
}

func tagIndex() int {
	idx := vrt.Int("tagidx")
	if vrt.Thorough() {
		vrt.Assume(vrt.And(idx >= 1, idx < 1<<28))
	} else {
		vrt.Assume(vrt.And(idx >= 1, idx < 1<<11))
	}
	return idx
}

// codecLaws checks C05 for one codec and one value (ptr follows the codec
// calling convention: pointer to the value, or the map pointer for maps).
func codecLaws(c plenccodec.Codec, ptr unsafe.Pointer, isMap bool, stable bool) {
	body := c.Append(nil, ptr, nil)
	vrt.ObserveBytes("body", body)
	vrt.Assert("Size(nil tag) == len(Append)", c.Size(ptr, nil) == len(body))
	idx := tagIndex()
	tag := plenccore.AppendTag(nil, c.WireType(), idx)
	framed := c.Append(nil, ptr, tag)
	vrt.Assert("Size(tag) == len(Append)", c.Size(ptr, tag) == len(framed))
	if !isRepeatedForm(c) && stable {
		exp := append([]byte{}, tag...)
		if c.WireType() == plenccore.WTLength {
			exp = refVarint(exp, uint64(len(body)))
		}
		exp = append(exp, body...)
		vrt.Assert("framing: tag, [length], body", vrt.BytesEq(framed, exp))
	}
	if !isRepeatedForm(c) {
		var fresh unsafe.Pointer
		var mp unsafe.Pointer
		if isMap {
			fresh = unsafe.Pointer(&mp)
		} else {
			fresh = c.New()
		}
		n, err := c.Read(body, fresh, c.WireType())
		vrt.Assert("Read(body) ok", err == nil)
		vrt.Assert("Read consumes exactly the body", n == len(body))
	}
}

type unsafePointer = unsafe.Pointer

func unsafePtr[T any](p *T) unsafe.Pointer { return unsafe.Pointer(p) }
