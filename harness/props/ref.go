package props

// Hand-written support for the generated per-type code: bounds, nondeterministic
// fill helpers, normalised equality helpers and the reference wire-format
// primitives (written from README.md, plenccore/wire.go's doc comments and the
// protobuf encoding guide; nothing here calls plenc).

import (
	"math"
	"time"

	"github.com/philpearl/plenc"
	"github.com/philpearl/plenc/null"
	"vharness/vrt"
)

type Bounds struct{ Str, Slice, Map, Depth int }

var (
	smallB = Bounds{Str: 1, Slice: 1, Map: 1, Depth: 2}
	bigB   = Bounds{Str: 2, Slice: 2, Map: 2, Depth: 3}
	midB   = Bounds{Str: 1, Slice: 2, Map: 2, Depth: 2} // and integers restricted to one-byte varints
)

// big: the bounds of the thorough tier — bigB, or midB when the engine retries
// a variant that did not fit its budget at bigB (vrt.Mid).
func big() Bounds {
	if vrt.Mid() {
		return midB
	}
	return bigB
}

var B = smallB

// eqProtoArrays: the comparison in progress is of a value decoded from the
// repeated-field form (set by the generated Eq methods from their pm argument).
var eqProtoArrays bool

// Focus selects which top-level field of the root struct gets the larger
// (thorough) bounds; -1: none. The thorough tier explores one variant per
// field, so the cost grows with the number of fields rather than with the
// product of their shape spaces.
var Focus = -1

var structDepth int

// setBounds: quick = small bounds; thorough = large bounds everywhere (used by
// the hand-written harnesses over small types).
func setBounds() {
	Focus = -1
	if vrt.Thorough() {
		B = big()
	} else {
		B = smallB
	}
}

// setBoundsFocus: quick = small bounds; thorough = one variant per top-level
// field (nf of them), that field filled with the large bounds.
func setBoundsFocus(nf int) {
	B = smallB
	Focus = -1
	NonFocus = false
	if !vrt.Thorough() || nf == 0 {
		// quick tier, or a type that is not in the thorough focus set
		return
	}
	if nf == 1 {
		B = big()
		NonFocus = vrt.Mid()
		vrt.Variant(1)
		return
	}
	Focus = vrt.Variant(nf)
	B.Depth = big().Depth
}

// NonFocus is set while a field other than the focus field is being filled:
// its integers are restricted to one-byte varints (values stay symbolic).
var NonFocus bool

func enterStruct() { structDepth++ }
func leaveStruct() { structDepth-- }

// focusField is called before each encoded field of a struct is filled.
func focusField(i int) {
	if structDepth != 1 || Focus < 0 {
		return
	}
	d := B.Depth
	if i == Focus {
		B = big()
		NonFocus = vrt.Mid() // intermediate bounds: more elements, one-byte integers
	} else {
		B = smallB
		NonFocus = true
	}
	B.Depth = d
}

// FillSmall restricts integers drawn by the generated fillers to one-byte
// varints (the values stay symbolic; only the varint-length case split goes).
var FillSmall bool

func idx(nm string, i int) string { return nm + "[" + string(rune('0'+i)) + "]" }

func fillTime(nm string, v *time.Time) {
	if vrt.Choice(nm+".zero", 2) == 1 {
		*v = time.Time{}
		return
	}
	s := vrt.I64(nm + ".sec")
	ns := vrt.I64(nm + ".nsec")
	vrt.Assume(vrt.And(ns >= 0, ns < 1000000000))
	if FillSmall || NonFocus {
		vrt.Assume(vrt.And(vrt.And(s >= -64, s < 64), ns < 64))
	}
	*v = time.Unix(s, ns)
}

func eqF64(a, b float64, nz bool) bool {
	same := math.Float64bits(a) == math.Float64bits(b)
	if nz {
		return vrt.Or(same, vrt.And(a == 0, b == 0))
	}
	return same
}

func eqF32(a, b float32, nz bool) bool {
	same := math.Float32bits(a) == math.Float32bits(b)
	if nz {
		return vrt.Or(same, vrt.And(a == 0, b == 0))
	}
	return same
}

func eqTime(a, b *time.Time) bool {
	return vrt.And(a.Unix() == b.Unix(), a.Nanosecond() == b.Nanosecond())
}

// ---- configurations ----

type cfgT struct {
	ProtoArrays, ProtoTime bool
}

var (
	cfgDef   = cfgT{}
	cfgProto = cfgT{ProtoArrays: true, ProtoTime: true}
	cfgArr   = cfgT{ProtoArrays: true}
	cfgTime  = cfgT{ProtoTime: true}
)

func newPlenc(c cfgT) *plenc.Plenc {
	p := &plenc.Plenc{ProtoCompatibleArrays: c.ProtoArrays, ProtoCompatibleTime: c.ProtoTime}
	p.RegisterDefaultCodecs()
	null.AddCodecs(p)
	return p
}

// ---- reference encoder primitives ----

type refCfg struct {
	ProtoArrays, ProtoTime bool
	Rot                    int   // rotation applied to the insertion order of map entries
	Order                  []int // field order of the top-level struct (decode-side checks)
	top                    int
}

func (c refCfg) nested() refCfg { c.top++; return c }

func refOf(c cfgT, rot int) refCfg {
	return refCfg{ProtoArrays: c.ProtoArrays, ProtoTime: c.ProtoTime, Rot: rot}
}

func refTag(buf []byte, wt int, index int) []byte {
	return refVarint(buf, uint64(index)<<3|uint64(wt))
}

func refLenField(buf []byte, index int, body []byte) []byte {
	buf = refTag(buf, 2, index)
	buf = refVarint(buf, uint64(len(body)))
	return append(buf, body...)
}

func refLE64(buf []byte, v uint64) []byte {
	for i := 0; i < 8; i++ {
		buf = append(buf, byte(v>>(8*uint(i))))
	}
	return buf
}

func refLE32(buf []byte, v uint32) []byte {
	for i := 0; i < 4; i++ {
		buf = append(buf, byte(v>>(8*uint(i))))
	}
	return buf
}

// refTimeBodyPlain: plenc's own time layout {1: zig-zag seconds, 2: zig-zag
// nanoseconds}; both fields are always written (pinned by testdata/time.golden:
// 08 <secs> 10 00).
func refTimeBodyPlain(buf []byte, t *time.Time) []byte {
	sec, ns := t.Unix(), int64(int32(t.Nanosecond()))
	buf = refTag(buf, 0, 1)
	buf = refVarint(buf, refZigZag(sec))
	buf = refTag(buf, 0, 2)
	buf = refVarint(buf, refZigZag(ns))
	return buf
}

// refTimeBody: in ProtoCompatibleTime mode google.protobuf.Timestamp
// {1: seconds int64, 2: nanos int32} as plain two's-complement varints.
func refTimeBody(buf []byte, t *time.Time, c refCfg) []byte {
	if !c.ProtoTime {
		return refTimeBodyPlain(buf, t)
	}
	sec, ns := t.Unix(), int32(t.Nanosecond())
	buf = refTag(buf, 0, 1)
	buf = refVarint(buf, uint64(sec))
	buf = refTag(buf, 0, 2)
	buf = refVarint(buf, uint64(uint32(ns)))
	return buf
}

// orderFor picks a field order for decode-side checks: all permutations for
// up to 3 fields, four representative ones above that.
func orderFor(n int) []int {
	o := make([]int, n)
	for i := range o {
		o[i] = i
	}
	if n <= 1 {
		return o
	}
	if n <= 3 {
		nperm := 2
		if n == 3 {
			nperm = 6
		}
		k := vrt.Choice("order", nperm)
		// k-th permutation by factorial number system
		avail := make([]int, n)
		copy(avail, o)
		f := nperm
		for i := 0; i < n; i++ {
			f /= (n - i)
			j := k / f
			k %= f
			o[i] = avail[j]
			avail = append(avail[:j], avail[j+1:]...)
		}
		return o
	}
	switch vrt.Choice("order", 4) {
	case 1:
		for i := range o {
			o[i] = n - 1 - i
		}
	case 2:
		for i := range o {
			o[i] = (i + 1) % n
		}
	case 3:
		o[0], o[n-1] = o[n-1], o[0]
	}
	return o
}
