package props

import (
	"reflect"

	"github.com/philpearl/plenc"
	"github.com/philpearl/plenc/plenccodec"
	"vharness/cat"
	"vharness/vrt"
)

// H14s_Names: struct definitions whose json tag texts are arbitrary bytes and
// whose plenc indexes are symbolic digits: the descriptor carries, per encoded
// field and in declaration order, the parsed index, the name rule's result,
// the field type of its kind and nothing else.
func H14s_Names() {
	p := new(plenc.Plenc)
	p.RegisterDefaultCodecs()
	kinds := []struct {
		T    reflect.Type
		want plenccodec.FieldType
		opt  string
	}{
		{reflect.TypeOf(int(0)), plenccodec.FieldTypeInt, ""},
		{reflect.TypeOf(uint8(0)), plenccodec.FieldTypeUint, ""},
		{reflect.TypeOf(""), plenccodec.FieldTypeString, ""},
		{reflect.TypeOf(false), plenccodec.FieldTypeBool, ""},
		{reflect.TypeOf(float32(0)), plenccodec.FieldTypeFloat32, ""},
		{reflect.TypeOf(cat.TIn{}), plenccodec.FieldTypeStruct, ""},
		{reflect.TypeOf([]string(nil)), plenccodec.FieldTypeSlice, ""},
		{reflect.TypeOf(int32(0)), plenccodec.FieldTypeFlatInt, ",flat"},
	}
	names := []string{"Alpha", "B"}
	nf := 1 + vrt.Choice("nfields", 2)
	specs := make([]vrt.FieldSpec, nf)
	var digits [2]byte
	var jtags [2]string
	var hasJ [2]bool
	var ks [2]int
	for i := 0; i < nf; i++ {
		if i == 0 {
			ks[i] = vrt.Choice(idx("kind", i), len(kinds))
			digits[i] = vrt.U8(idx("digit", i))
			vrt.Assume(vrt.And(digits[i] >= '0', digits[i] <= '2'))
		} else {
			digits[i] = '3'
		}
		hasJ[i] = vrt.Choice(idx("hasjson", i), 2) == 1
		if hasJ[i] {
			maxl := 3
			if i == 1 {
				maxl = 1
			}
			jtags[i] = vrt.String(idx("json", i), vrt.Choice(idx("json.len", i), maxl+1))
		}
		specs[i] = vrt.FieldSpec{Name: names[i], Type: kinds[ks[i]].T, Plenc: string([]byte{digits[i]}) + kinds[ks[i]].opt, HasPlenc: true,
			JSON: jtags[i], HasJSON: hasJ[i]}
	}
	t := vrt.StructOf(specs)
	c, err := p.CodecForType(t)
	vrt.Assert("definition accepted", err == nil && c != nil)
	if err != nil || c == nil {
		return
	}
	d := c.Descriptor()
	vrt.Assert("struct descriptor", d.Type == plenccodec.FieldTypeStruct)
	vrt.Assert("one element per encoded field", len(d.Elements) == nf)
	if len(d.Elements) != nf {
		return
	}
	for i := 0; i < nf; i++ {
		e := d.Elements[i]
		vrt.Assert("index == parsed plenc index", e.Index == int(digits[i]-'0'))
		vrt.Assert("name == json name, else field name", e.Name == refJSONName(jtags[i], names[i]))
		vrt.Assert("field type matches the kind", e.Type == kinds[ks[i]].want)
		vrt.Assert("no explicit presence for plain fields", !e.ExplicitPresence)
	}
}
