package props

// C16 — the JSON-any codecs round-trip every JSON-model value.

import (
	"encoding/json"
	"math"
	"reflect"

	"github.com/philpearl/plenc"
	"github.com/philpearl/plenc/plenccodec"
	"vharness/vrt"
)

type TJSON struct {
	A int            `plenc:"1"`
	M map[string]any `plenc:"2"`
	L []any          `plenc:"3"`
	B int            `plenc:"4"`
}

// TJSONLess lacks the JSON fields (they are unknown fields to skip).
type TJSONLess struct {
	A int `plenc:"1"`
	B int `plenc:"4"`
}

func newPlencJSON() *plenc.Plenc {
	p := new(plenc.Plenc)
	p.RegisterDefaultCodecs()
	p.RegisterCodec(reflect.TypeOf(map[string]any{}), plenccodec.JSONMapCodec{})
	p.RegisterCodec(reflect.TypeOf([]any{}), plenccodec.JSONArrayCodec{})
	return p
}

// Bounds of the value trees. quick: containers nested twice, <=1 element each,
// one-byte integers. thorough: one more level of nesting and full-width
// integers; its intermediate fallback (vrt.Mid): quick's nesting with <=2
// elements in the top-level container.
func anyDepth() int {
	if vrt.Thorough() && !vrt.Mid() {
		return 2
	}
	return 1
}

// fillAny draws a JSON-model value: nil, bool, int, float64, string,
// json.Number, []any, map[string]any.
func fillAny(nm string, d int) any {
	nk := 8
	if d <= 0 {
		nk = 6
	}
	switch vrt.Choice(nm+".kind", nk) {
	case 1:
		return vrt.Bool(nm)
	case 2:
		return smallInt(nm)
	case 3:
		return math.Float64frombits(vrt.U64(nm))
	case 4:
		return vrt.String(nm, vrt.Choice(nm+".len", 2))
	case 5:
		return json.Number(vrt.String(nm, 1+vrt.Choice(nm+".len", 2)))
	case 6:
		return fillArr(nm, d-1)
	case 7:
		return fillObj(nm, d-1)
	}
	return nil
}

// smallInt: an arbitrary int; in the quick tier restricted to one-byte
// varints (still symbolic) to avoid the ten-way varint length split.
func smallInt(nm string) int {
	v := vrt.Int(nm)
	if !vrt.Thorough() || vrt.Mid() {
		vrt.Assume(vrt.And(v >= -100, v < 100))
	}
	return v
}

func anyWidth(d int) int {
	if vrt.Thorough() && vrt.Mid() && d == anyDepth() {
		return 4
	}
	return 3
}

func fillArr(nm string, d int) []any {
	switch k := vrt.Choice(nm+".alen", anyWidth(d)); k {
	case 0:
		return nil
	case 1:
		return []any{}
	default:
		a := make([]any, k-1)
		for i := range a {
			a[i] = fillAny(idx(nm, i), d)
		}
		return a
	}
}

// objShadow keeps the insertion order of the top-level object's members.
type objShadow struct {
	K []string
	V []any
}

func fillObjSh(nm string, d int, sh *objShadow) map[string]any {
	switch k := vrt.Choice(nm+".olen", anyWidth(d)); k {
	case 0:
		return nil
	case 1:
		return map[string]any{}
	default:
		m := make(map[string]any, k-1)
		for i := 0; i < k-1; i++ {
			key := vrt.String(idx(nm+".k", i), vrt.Choice(idx(nm+".k.len", i), 2))
			for _, prev := range sh.K {
				vrt.Assume(key != prev)
			}
			v := fillAny(idx(nm+".v", i), d)
			sh.K = append(sh.K, key)
			sh.V = append(sh.V, v)
			m[key] = v
		}
		return m
	}
}

func fillObj(nm string, d int) map[string]any {
	var sh objShadow
	return fillObjSh(nm, d, &sh)
}

// eqAny: equality in the JSON data model; nil and empty containers are
// interchangeable; floats compared by bits (the codec copies them).
func eqAny(a, b any) bool {
	switch x := a.(type) {
	case nil:
		return b == nil
	case bool:
		y, ok := b.(bool)
		return ok && x == y
	case int:
		y, ok := b.(int)
		return ok && x == y
	case float64:
		y, ok := b.(float64)
		return ok && math.Float64bits(x) == math.Float64bits(y)
	case string:
		y, ok := b.(string)
		return ok && x == y
	case json.Number:
		y, ok := b.(json.Number)
		return ok && x == y
	case []any:
		y, ok := b.([]any)
		if !ok {
			// a nil/empty array may come back as nil
			return len(x) == 0 && b == nil
		}
		return eqArr(x, y)
	case map[string]any:
		y, ok := b.(map[string]any)
		if !ok {
			return len(x) == 0 && b == nil
		}
		return eqObj(x, y)
	}
	return false
}

func eqArr(x, y []any) bool {
	if len(x) != len(y) {
		return false
	}
	ok := true
	for i := range x {
		ok = vrt.And(ok, eqAny(x[i], y[i]))
	}
	return ok
}

func eqObj(x, y map[string]any) bool {
	if len(x) != len(y) {
		return false
	}
	ok := true
	for k, v := range x {
		w, found := y[k]
		if !found {
			return false
		}
		ok = vrt.And(ok, eqAny(v, w))
	}
	return ok
}

// H16_TopMap: a top-level map[string]any.
func H16_TopMap() {
	vrt.MapOrder(false)
	p := newPlencJSON()
	m := fillObj("m", anyDepth())
	data, err := p.Marshal(nil, m)
	vrt.Assert("marshal ok", err == nil)
	vrt.ObserveBytes("data", data)
	var out map[string]any
	vrt.Assert("unmarshal ok", p.Unmarshal(data, &out) == nil)
	vrt.Assert("round trip", eqObj(m, out))
}

// H16_TopArray: a top-level []any.
func H16_TopArray() {
	vrt.MapOrder(false)
	p := newPlencJSON()
	a := fillArr("a", anyDepth())
	data, err := p.Marshal(nil, &a)
	vrt.Assert("marshal ok", err == nil)
	vrt.ObserveBytes("data", data)
	var out []any
	vrt.Assert("unmarshal ok", p.Unmarshal(data, &out) == nil)
	vrt.Assert("round trip", eqArr(a, out))
}

// H16_Field: as struct fields between two integers, and as unknown fields
// being skipped.
func H16_Field() {
	vrt.MapOrder(false)
	p := newPlencJSON()
	var in TJSON
	in.A = vrt.Int("A")
	in.B = vrt.Int("B")
	vrt.Assume(vrt.And(vrt.And(in.A >= -64, in.A < 64), vrt.And(in.B >= -64, in.B < 64)))
	d := anyDepth() - 1
	in.M = fillObj("M", d)
	in.L = fillArr("L", d)
	data, err := p.Marshal(nil, &in)
	vrt.Assert("marshal ok", err == nil)
	vrt.ObserveBytes("data", data)
	var out TJSON
	vrt.Assert("unmarshal ok", p.Unmarshal(data, &out) == nil)
	vrt.Assert("surrounding fields", vrt.And(out.A == in.A, out.B == in.B))
	vrt.Assert("map field", eqObj(in.M, out.M))
	vrt.Assert("array field", eqArr(in.L, out.L))
	var less TJSONLess
	vrt.Assert("unmarshal into the type without the JSON fields ok", p.Unmarshal(data, &less) == nil)
	vrt.Assert("JSON fields skipped exactly", vrt.And(less.A == in.A, less.B == in.B))
}

// expected events for a JSON-model value
func evAny(out *[]ev, v any) {
	switch x := v.(type) {
	case nil:
		*out = append(*out, ev{K: evRaw, S: "null"})
	case bool:
		var u uint64
		if x {
			u = 1
		}
		*out = append(*out, ev{K: evBool, U: u})
	case int:
		*out = append(*out, ev{K: evInt, U: uint64(x)})
	case float64:
		*out = append(*out, ev{K: evF64, U: math.Float64bits(x)})
	case string:
		*out = append(*out, ev{K: evString, S: x})
	case json.Number:
		*out = append(*out, ev{K: evRaw, S: string(x)})
	case []any:
		*out = append(*out, ev{K: evStartArr})
		for _, e := range x {
			evAny(out, e)
		}
		*out = append(*out, ev{K: evEndArr})
	case map[string]any:
		*out = append(*out, ev{K: evStartObj})
		for k, e := range x {
			*out = append(*out, ev{K: evName, S: k})
			evAny(out, e)
		}
		*out = append(*out, ev{K: evEndObj})
	}
}

// H16_DescribeMap: walking the bytes with the codec's Descriptor renders the value.
func H16_DescribeMap() {
	vrt.MapOrder(false)
	p := newPlencJSON()
	// at most one member per object here: member order is the encoder's map iteration order
	var m map[string]any
	switch vrt.Choice("m.olen", 3) {
	case 1:
		m = map[string]any{}
	case 2:
		key := vrt.String("m.k", vrt.Choice("m.k.len", 2))
		m = map[string]any{key: fillAnyNarrow("m.v", anyDepth())}
	}
	data, err := p.Marshal(nil, m)
	vrt.Assert("marshal ok", err == nil)
	c, err := p.CodecForType(reflect.TypeOf(m))
	vrt.Assert("codec ok", err == nil)
	d := c.Descriptor()
	var r recOut
	err = d.Read(&r, data)
	vrt.Assert("descriptor walk ok", err == nil)
	vrt.Assert("events well nested (would render as valid JSON)", r.wellNested())
	var exp []ev
	if m == nil {
		exp = []ev{{K: evStartObj}, {K: evEndObj}}
	} else {
		evAny(&exp, m)
	}
	vrt.Assert("rendered content == value", eqEvents(exp, r.evs))
}

// fillAnyNarrow: like fillAny but nested objects have at most one member.
func fillAnyNarrow(nm string, d int) any {
	nk := 8
	if d <= 0 {
		nk = 6
	}
	switch vrt.Choice(nm+".kind", nk) {
	case 1:
		return vrt.Bool(nm)
	case 2:
		return smallInt(nm)
	case 3:
		return math.Float64frombits(vrt.U64(nm))
	case 4:
		return vrt.String(nm, vrt.Choice(nm+".len", 2))
	case 5:
		return json.Number(vrt.String(nm, 1))
	case 6:
		k := vrt.Choice(nm+".alen", 3)
		a := make([]any, k)
		for i := range a {
			a[i] = fillAnyNarrow(idx(nm, i), d-1)
		}
		return a
	case 7:
		if vrt.Choice(nm+".olen", 2) == 0 {
			return map[string]any{}
		}
		return map[string]any{vrt.String(nm+".k", vrt.Choice(nm+".k.len", 2)): fillAnyNarrow(nm+".v", d-1)}
	}
	return nil
}

// H16_DescribeArray: same for a []any.
func H16_DescribeArray() {
	vrt.MapOrder(false)
	p := newPlencJSON()
	k := vrt.Choice("a.alen", 3)
	a := make([]any, k)
	for i := range a {
		a[i] = fillAnyNarrow(idx("a", i), anyDepth())
	}
	data, err := p.Marshal(nil, &a)
	vrt.Assert("marshal ok", err == nil)
	c, err := p.CodecForType(reflect.TypeOf(a))
	vrt.Assert("codec ok", err == nil)
	d := c.Descriptor()
	var r recOut
	err = d.Read(&r, data)
	vrt.Assert("descriptor walk ok", err == nil)
	vrt.Assert("events well nested (would render as valid JSON)", r.wellNested())
	var exp []ev
	evAny(&exp, a)
	vrt.Assert("rendered content == value", eqEvents(exp, r.evs))
}

// H16_Laws: codec laws (C05) for the exported JSON codecs.
func H16_Laws() {
	vrt.MapOrder(false)
	if vrt.Choice("which", 2) == 0 {
		m := fillObj("m", anyDepth())
		if m == nil {
			return
		}
		codecLaws(plenccodec.JSONMapCodec{}, *(*unsafePointer)(unsafePtr(&m)), true, len(m) <= 1)
		return
	}
	a := fillArr("a", anyDepth())
	if len(a) == 0 {
		return
	}
	codecLaws(plenccodec.JSONArrayCodec{}, unsafePtr(&a), false, true)
}

// H04j_JSON: decoding arbitrary bytes into JSON-any targets is total.
func H04j_JSONStruct() {
	decodeTotal(newPlencJSON(), func() interface{} { return new(TJSON) })
}

func H04j_JSONMap() {
	decodeTotal(newPlencJSON(), func() interface{} { return new(map[string]any) })
}

func H04j_JSONArray() {
	decodeTotal(newPlencJSON(), func() interface{} { return new([]any) })
}

func H04dj_JSONStruct() {
	describeTotal(newPlencJSON(), func() interface{} { return new(TJSON) })
}

// H16b_BigEntry: entries whose encoding crosses the 2->3 byte length-prefix boundary.
func H16b_BigEntry() {
	vrt.MapOrder(false)
	p := newPlencJSON()
	n := []int{16370, 16384, 16390}[vrt.Choice("len", 3)]
	s := vrt.String("s", n)
	var in TJSON
	in.A, in.B = smallSym("A"), smallSym("B")
	if vrt.Choice("where", 2) == 0 {
		in.M = map[string]any{"k": s}
	} else {
		in.L = []any{s, 1}
	}
	data, err := p.Marshal(nil, &in)
	vrt.Assert("marshal ok", err == nil)
	var out TJSON
	vrt.Assert("unmarshal ok", p.Unmarshal(data, &out) == nil)
	vrt.Assert("surrounding fields", vrt.And(out.A == in.A, out.B == in.B))
	vrt.Assert("map field", eqObj(in.M, out.M))
	vrt.Assert("array field", eqArr(in.L, out.L))
	var less TJSONLess
	vrt.Assert("skip ok", p.Unmarshal(data, &less) == nil)
	vrt.Assert("JSON fields skipped exactly", vrt.And(less.A == in.A, less.B == in.B))
}

// numberLiterals: json.Number texts at the edges of what float64 and int64
// can hold (valid JSON number literals; the codec must carry the text as is).
var numberLiterals = []string{"0", "-0", "1", "-1.5", "1e309", "-1e400", "2E+1000", "1e-400", "123456789012345678901234567890",
	"9223372036854775808", "-9223372036854775809", "18446744073709551616", "0.1000000000000000055511151231257827", "1E2", "4.9e-324"}

// H16n_NumberLiterals: json.Number values with extreme literals round-trip
// as text, at top level, nested and as a struct field, and the descriptor
// walk hands the text to the outputter unchanged (a number, not a string).
func H16n_NumberLiterals() {
	vrt.MapOrder(false)
	p := newPlencJSON()
	lit := json.Number(numberLiterals[vrt.Choice("lit", len(numberLiterals))])
	key := vrt.String("k", 1)
	var data []byte
	var err error
	var exp []ev
	var r recOut
	switch vrt.Choice("position", 3) {
	case 0:
		a := []any{lit, []any{lit}}
		data, err = p.Marshal(nil, &a)
		vrt.Assert("marshal ok", err == nil)
		var out []any
		vrt.Assert("unmarshal ok", p.Unmarshal(data, &out) == nil)
		vrt.Assert("round trip", eqArr(a, out))
		c, cerr := p.CodecForType(reflect.TypeOf(a))
		vrt.Assert("codec ok", cerr == nil)
		d := c.Descriptor()
		vrt.Assert("descriptor walk ok", d.Read(&r, data) == nil)
		evAny(&exp, a)
	case 1:
		m := map[string]any{key: lit}
		data, err = p.Marshal(nil, m)
		vrt.Assert("marshal ok", err == nil)
		var out map[string]any
		vrt.Assert("unmarshal ok", p.Unmarshal(data, &out) == nil)
		vrt.Assert("round trip", eqObj(m, out))
		c, cerr := p.CodecForType(reflect.TypeOf(m))
		vrt.Assert("codec ok", cerr == nil)
		d := c.Descriptor()
		vrt.Assert("descriptor walk ok", d.Read(&r, data) == nil)
		evAny(&exp, m)
	default:
		in := TJSON{A: 1, M: map[string]any{key: []any{lit}}, L: []any{lit}, B: 2}
		data, err = p.Marshal(nil, &in)
		vrt.Assert("marshal ok", err == nil)
		var out TJSON
		vrt.Assert("unmarshal ok", p.Unmarshal(data, &out) == nil)
		vrt.Assert("round trip", vrt.And(eqObj(in.M, out.M), eqArr(in.L, out.L)))
		c, cerr := p.CodecForType(reflect.TypeOf(in))
		vrt.Assert("codec ok", cerr == nil)
		d := c.Descriptor()
		vrt.Assert("descriptor walk ok", d.Read(&r, data) == nil)
		exp = []ev{{K: evStartObj}, {K: evName, S: "A"}, {K: evInt, U: 1}, {K: evName, S: "M"}}
		evAny(&exp, in.M)
		exp = append(exp, ev{K: evName, S: "L"})
		evAny(&exp, in.L)
		exp = append(exp, ev{K: evName, S: "B"}, ev{K: evInt, U: 2}, ev{K: evEndObj})
	}
	vrt.Assert("events well nested (would render as valid JSON)", r.wellNested())
	vrt.Assert("rendered content == value (numbers as raw number text)", eqEvents(exp, r.evs))
}
