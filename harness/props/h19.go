package props

// C19 — interning is transparent under any (sequential) history.

import (
	"github.com/unravelin/null"
	"vharness/vrt"
)

type sIntern struct {
	S string `plenc:"1,intern"`
	T string `plenc:"2,intern"`
}

type sPlainS struct {
	S string `plenc:"1"`
	T string `plenc:"2"`
}

type sNullIntern struct {
	U null.String `plenc:"1,intern"`
}

type sNullPlain struct {
	U null.String `plenc:"1"`
}

func internSteps() int {
	if vrt.Thorough() {
		return 4
	}
	return 3
}

// H19_History: a history of decodes from one reused, overwritten input buffer.
func H19_History() {
	vrt.MapOrder(false)
	p := newPlenc(cfgDef)
	k := internSteps()
	buf := make([]byte, 0, 16)
	var gotS, gotT, wantS, wantT [4]string
	for step := 0; step < k; step++ {
		s := vrt.String(idx("s", step), vrt.Choice(idx("s.len", step), 3))
		t := vrt.String(idx("t", step), vrt.Choice(idx("t.len", step), 2))
		plain := sPlainS{S: s, T: t}
		enc, err := p.Marshal(buf[:0], &plain)
		vrt.Assert("marshal ok", err == nil)
		in := sIntern{S: s, T: t}
		encI, err := p.Marshal(nil, &in)
		vrt.Assert("marshal interned ok", err == nil)
		vrt.Assert("encoding unchanged by the intern option", vrt.BytesEq(enc, encI))
		var oi sIntern
		var op sPlainS
		vrt.Assert("unmarshal interned ok", p.Unmarshal(enc, &oi) == nil)
		vrt.Assert("unmarshal plain ok", p.Unmarshal(enc, &op) == nil)
		vrt.Assert("interned field == plain field", vrt.And(oi.S == op.S, oi.T == op.T))
		vrt.Assert("decoded == encoded", vrt.And(oi.S == s, oi.T == t))
		gotS[step], gotT[step], wantS[step], wantT[step] = oi.S, oi.T, s, t
		// the caller re-uses its buffer
		for i := range enc {
			enc[i] = vrt.U8("scribble")
		}
		for j := 0; j <= step; j++ {
			vrt.Assert("strings returned earlier never change", vrt.And(gotS[j] == wantS[j], gotT[j] == wantT[j]))
		}
	}
}

// H19_Null: the same for an interned null.String.
func H19_Null() {
	vrt.MapOrder(false)
	p := newPlenc(cfgDef)
	buf := make([]byte, 0, 16)
	var got, want [4]null.String
	for step := 0; step < internSteps(); step++ {
		var u null.String
		if vrt.Choice(idx("valid", step), 2) == 1 {
			u.Valid = true
			u.String = vrt.String(idx("u", step), vrt.Choice(idx("u.len", step), 3))
		}
		plain := sNullPlain{U: u}
		enc, err := p.Marshal(buf[:0], &plain)
		vrt.Assert("marshal ok", err == nil)
		in := sNullIntern{U: u}
		encI, err := p.Marshal(nil, &in)
		vrt.Assert("marshal interned ok", err == nil)
		vrt.Assert("encoding unchanged by the intern option", vrt.BytesEq(enc, encI))
		var oi sNullIntern
		var op sNullPlain
		vrt.Assert("unmarshal interned ok", p.Unmarshal(enc, &oi) == nil)
		vrt.Assert("unmarshal plain ok", p.Unmarshal(enc, &op) == nil)
		vrt.Assert("interned == plain", oi.U.Valid == op.U.Valid && oi.U.String == op.U.String)
		vrt.Assert("decoded == encoded", oi.U.Valid == u.Valid && vrt.Implies(u.Valid, oi.U.String == u.String))
		got[step], want[step] = oi.U, u
		for i := range enc {
			enc[i] = vrt.U8("scribble")
		}
		for j := 0; j <= step; j++ {
			vrt.Assert("strings returned earlier never change", got[j].Valid == want[j].Valid && vrt.Implies(want[j].Valid, got[j].String == want[j].String))
		}
	}
}

// H19_Long: strings around the lengths where packed / word-sized tricks
// change behaviour (7, 8, 9 bytes), arbitrary contents.
func H19_Long() {
	vrt.MapOrder(false)
	p := newPlenc(cfgDef)
	buf := make([]byte, 0, 32)
	var got, want [4]string
	for step := 0; step < 3; step++ {
		n := []int{7, 8, 9}[vrt.Choice(idx("len", step), 3)]
		s := vrt.String(idx("s", step), n)
		plain := sPlainS{S: s}
		enc, err := p.Marshal(buf[:0], &plain)
		vrt.Assert("marshal ok", err == nil)
		var oi sIntern
		var op sPlainS
		vrt.Assert("unmarshal interned ok", p.Unmarshal(enc, &oi) == nil)
		vrt.Assert("unmarshal plain ok", p.Unmarshal(enc, &op) == nil)
		vrt.Assert("interned field == plain field", oi.S == op.S)
		vrt.Assert("decoded == encoded", oi.S == s)
		got[step], want[step] = oi.S, s
		for i := range enc {
			enc[i] = vrt.U8("scribble")
		}
		for j := 0; j <= step; j++ {
			vrt.Assert("strings returned earlier never change", got[j] == want[j])
		}
	}
}

// H19_NullReused: interned null.String decoded repeatedly into the SAME target.
func H19_NullReused() {
	vrt.MapOrder(false)
	p := newPlenc(cfgDef)
	var oi sNullIntern
	var op sNullPlain
	for step := 0; step < internSteps(); step++ {
		var u null.String
		if vrt.Choice(idx("valid", step), 2) == 1 {
			u.Valid = true
			u.String = vrt.String(idx("u", step), vrt.Choice(idx("u.len", step), 3))
		}
		enc, err := p.Marshal(nil, &sNullPlain{U: u})
		vrt.Assert("marshal ok", err == nil)
		vrt.Assert("unmarshal interned ok", p.Unmarshal(enc, &oi) == nil)
		vrt.Assert("unmarshal plain ok", p.Unmarshal(enc, &op) == nil)
		vrt.Assert("interned == plain into re-used targets", oi.U.Valid == op.U.Valid && oi.U.String == op.U.String)
	}
}

// H19_ManyValues: a long history of distinct values (more than any small
// table or slab would hold), then symbolic ones: everything returned earlier
// keeps its value, interned == plain, and nothing aliases the input buffer.
func H19_ManyValues() { manyValues(4200) }

func manyValues(N int) {
	vrt.MapOrder(false)
	vrt.StepLimit(4_000_000_000)
	vrt.LoopBound(16384)
	p := newPlenc(cfgDef)
	var buf [16]byte
	got := make([]string, 0, N+2)
	want := make([]string, 0, N+2)
	decode := func(s string) {
		plain := sPlainS{S: s}
		enc, err := p.Marshal(buf[:0], &plain)
		vrt.Assert("marshal ok", err == nil)
		var oi sIntern
		vrt.Assert("unmarshal interned ok", p.Unmarshal(enc, &oi) == nil)
		got, want = append(got, oi.S), append(want, s)
		for i := range enc {
			enc[i] = 0xAA // the input buffer is re-used by the caller
		}
	}
	digits := "0123456789abcdefghijklmnopqrstuvwxyz"
	for i := 0; i < N; i++ {
		decode(string([]byte{'v', digits[i/36/36%36], digits[i/36%36], digits[i%36]}))
	}
	for step := 0; step < 2; step++ {
		decode(vrt.String(idx("s", step), 2))
	}
	// spot checks over the whole history, ends and the usual table sizes included
	for _, i := range []int{0, 1, 254, 255, 256, 511, 512, 1022, 1023, 1024, 1025, 2047, 2048, 4094, 4095, 4096, 4097, 8190, 8191, 8192, 8193, N - 1, N, N + 1} {
		if i > N+1 {
			continue
		}
		vrt.Assert("strings returned earlier never change", got[i] == want[i])
	}
}
