package props

// A recording Outputter: the descriptor-driven walk is observed at the
// Outputter interface (the seam the code has) as a list of events, compared
// with the event list the statement prescribes for the value.

import (
	"math"
	"time"

	"github.com/philpearl/plenc/plenccodec"
	"vharness/vrt"
)

const (
	evStartObj = iota + 1
	evEndObj
	evStartArr
	evEndArr
	evName
	evInt
	evUint
	evF64
	evF32
	evString
	evBool
	evTime
	evRaw
)

type ev struct {
	K int
	U uint64 // numeric payload (ints, float bits, bool, unix seconds)
	N uint64 // nanoseconds of a time
	S string // string payload
}

type recOut struct {
	evs   []ev
	stack []int // 1 = object expecting key, 2 = object expecting value, 3 = array
}

var _ plenccodec.Outputter = (*recOut)(nil)

func (r *recOut) top() int {
	if len(r.stack) == 0 {
		return 0
	}
	return r.stack[len(r.stack)-1]
}

// value bookkeeping: after a value in an object we expect a key again
func (r *recOut) valueDone() {
	if r.top() == 2 {
		r.stack[len(r.stack)-1] = 1
	}
}

func (r *recOut) StartObject() {
	r.evs = append(r.evs, ev{K: evStartObj})
	r.stack = append(r.stack, 1)
}
func (r *recOut) EndObject() {
	r.evs = append(r.evs, ev{K: evEndObj})
	if len(r.stack) > 0 {
		r.stack = r.stack[:len(r.stack)-1]
	}
	r.valueDone()
}
func (r *recOut) StartArray() {
	r.evs = append(r.evs, ev{K: evStartArr})
	r.stack = append(r.stack, 3)
}
func (r *recOut) EndArray() {
	r.evs = append(r.evs, ev{K: evEndArr})
	if len(r.stack) > 0 {
		r.stack = r.stack[:len(r.stack)-1]
	}
	r.valueDone()
}
func (r *recOut) NameField(name string) {
	r.evs = append(r.evs, ev{K: evName, S: name})
	if r.top() == 1 {
		r.stack[len(r.stack)-1] = 2
	}
}
func (r *recOut) Int64(v int64)   { r.evs = append(r.evs, ev{K: evInt, U: uint64(v)}); r.valueDone() }
func (r *recOut) Uint64(v uint64) { r.evs = append(r.evs, ev{K: evUint, U: v}); r.valueDone() }
func (r *recOut) Float64(v float64) {
	r.evs = append(r.evs, ev{K: evF64, U: math.Float64bits(v)})
	r.valueDone()
}
func (r *recOut) Float32(v float32) {
	r.evs = append(r.evs, ev{K: evF32, U: uint64(math.Float32bits(v))})
	r.valueDone()
}
func (r *recOut) String(v string) {
	if r.top() == 1 {
		// a string in key position is the member name (what the JSON outputter makes of it)
		r.evs = append(r.evs, ev{K: evName, S: v})
		r.stack[len(r.stack)-1] = 2
		return
	}
	r.evs = append(r.evs, ev{K: evString, S: v})
	r.valueDone()
}
func (r *recOut) Bool(v bool) {
	var u uint64
	if v {
		u = 1
	}
	r.evs = append(r.evs, ev{K: evBool, U: u})
	r.valueDone()
}
func (r *recOut) Time(t time.Time) {
	r.evs = append(r.evs, ev{K: evTime, U: uint64(t.Unix()), N: uint64(t.Nanosecond())})
	r.valueDone()
}
func (r *recOut) Raw(v string) { r.evs = append(r.evs, ev{K: evRaw, S: v}); r.valueDone() }

// wellNested: every container closed, every member name followed by a value.
func (r *recOut) wellNested() bool {
	return len(r.stack) == 0 && wellNestedEvents(r.evs)
}

func wellNestedEvents(evs []ev) bool {
	var st []int
	for _, e := range evs {
		top := 0
		if len(st) > 0 {
			top = st[len(st)-1]
		}
		switch e.K {
		case evName:
			if top != 1 {
				return false
			}
			st[len(st)-1] = 2
			continue
		case evEndObj:
			if top != 1 {
				return false
			}
			st = st[:len(st)-1]
		case evEndArr:
			if top != 3 {
				return false
			}
			st = st[:len(st)-1]
		default:
			if top == 1 {
				return false // value where a member name is needed
			}
			if e.K == evStartObj {
				st = append(st, 1)
				continue
			}
			if e.K == evStartArr {
				st = append(st, 3)
				continue
			}
		}
		// a value was completed
		if len(st) > 0 && st[len(st)-1] == 2 {
			st[len(st)-1] = 1
		}
	}
	return len(st) == 0
}

// eqEvents: same kinds in the same order (concrete) and equal payloads (terms).
func eqEvents(a, b []ev) bool {
	if len(a) != len(b) {
		return false
	}
	ok := true
	for i := range a {
		if a[i].K != b[i].K {
			return false
		}
		ok = vrt.And(ok, vrt.And(a[i].U == b[i].U, vrt.And(a[i].N == b[i].N, a[i].S == b[i].S)))
	}
	return ok
}
