package props

// C03 — schema evolution: data written from an old type decodes into the
// evolved type (field removed, added, renamed, reordered) with every
// surviving field intact and every unknown field skipped exactly.

import (
	"github.com/philpearl/plenc"
	"vharness/cat"
	"vharness/vrt"
)

func fillPrime(nm string, v *cat.KxPrime) {
	v.Aye = vrt.Int(nm + ".Aye")
	v.New = vrt.Int(nm + ".New")
	v.Bee = vrt.String(nm+".Bee", vrt.Choice(nm+".Bee.len", 2))
}

// evolveCheck decodes data (written from an old value whose surviving fields
// are a, b) into a pre-populated KxPrime and checks the merge rules.
func evolveCheck(p *plenc.Plenc, data []byte, a int, b string) {
	var prior cat.KxPrime
	fillPrime("prior", &prior)
	before := prior
	err := p.Unmarshal(data, &prior)
	vrt.Assert("decodes without error", err == nil)
	vrt.Assert("shared field 1 (renamed, reordered)", prior.Aye == vrt.IteInt(a != 0, a, before.Aye))
	if len(b) != 0 {
		vrt.Assert("shared field 3 (renamed, reordered)", prior.Bee == b)
	} else {
		vrt.Assert("absent field keeps prior value", prior.Bee == before.Bee)
	}
	vrt.Assert("added field untouched", prior.New == before.New)
	// and into a fresh target
	var fresh cat.KxPrime
	err = p.Unmarshal(data, &fresh)
	vrt.Assert("decodes into fresh target", err == nil)
	vrt.Assert("fresh: field 1", fresh.Aye == a)
	vrt.Assert("fresh: field 3", fresh.Bee == b)
	vrt.Assert("fresh: added field zero", fresh.New == 0)
}

func evolve(data []byte, err error, a int, b string, p *plenc.Plenc) {
	vrt.Assert("marshal ok", err == nil)
	vrt.ObserveBytes("data", data)
	evolveCheck(p, data, a, b)
}

func H03_Varint() {
	setBounds()
	p := newPlenc(cfgDef)
	var x V_KxVarint
	x.Fill("s")
	d, err := p.Marshal(nil, &x.V)
	evolve(d, err, x.V.A, x.V.B, p)
}

func H03_Flat() {
	setBounds()
	p := newPlenc(cfgDef)
	var x V_KxFlat
	x.Fill("s")
	d, err := p.Marshal(nil, &x.V)
	evolve(d, err, x.V.A, x.V.B, p)
}

func H03_F32() {
	setBounds()
	p := newPlenc(cfgDef)
	var x V_KxF32
	x.Fill("s")
	d, err := p.Marshal(nil, &x.V)
	evolve(d, err, x.V.A, x.V.B, p)
}

func H03_F64() {
	setBounds()
	p := newPlenc(cfgDef)
	var x V_KxF64
	x.Fill("s")
	d, err := p.Marshal(nil, &x.V)
	evolve(d, err, x.V.A, x.V.B, p)
}

func H03_Str() {
	setBounds()
	p := newPlenc(cfgDef)
	var x V_KxStr
	x.Fill("s")
	d, err := p.Marshal(nil, &x.V)
	evolve(d, err, x.V.A, x.V.B, p)
}

func H03_Struct() {
	setBounds()
	p := newPlenc(cfgDef)
	var x V_KxStruct
	x.Fill("s")
	d, err := p.Marshal(nil, &x.V)
	evolve(d, err, x.V.A, x.V.B, p)
}

func H03_Packed() {
	setBounds()
	p := newPlenc(cfgDef)
	var x V_KxPacked
	x.Fill("s")
	d, err := p.Marshal(nil, &x.V)
	evolve(d, err, x.V.A, x.V.B, p)
}

func H03_Fixed() {
	setBounds()
	p := newPlenc(cfgDef)
	var x V_KxFixed
	x.Fill("s")
	d, err := p.Marshal(nil, &x.V)
	evolve(d, err, x.V.A, x.V.B, p)
}

func H03_Counted() {
	setBounds()
	p := newPlenc(cfgDef)
	var x V_KxCounted
	x.Fill("s")
	d, err := p.Marshal(nil, &x.V)
	evolve(d, err, x.V.A, x.V.B, p)
}

func H03_CountedStructs() {
	setBounds()
	p := newPlenc(cfgDef)
	var x V_KxCountedS
	x.Fill("s")
	d, err := p.Marshal(nil, &x.V)
	evolve(d, err, x.V.A, x.V.B, p)
}

func H03_Map() {
	setBounds()
	p := newPlenc(cfgDef)
	var x V_KxMap
	x.Fill("s")
	d, err := p.Marshal(nil, &x.V)
	evolve(d, err, x.V.A, x.V.B, p)
}

func H03_Time() {
	setBounds()
	p := newPlenc(cfgDef)
	var x V_KxTime
	x.Fill("s")
	d, err := p.Marshal(nil, &x.V)
	evolve(d, err, x.V.A, x.V.B, p)
}

func H03_Ptr() {
	setBounds()
	p := newPlenc(cfgDef)
	var x V_KxPtr
	x.Fill("s")
	d, err := p.Marshal(nil, &x.V)
	evolve(d, err, x.V.A, x.V.B, p)
}

// proto-compatible writer: repeated fields are skipped one element at a time
func H03_CountedProto() {
	setBounds()
	B.Slice = 2 // at least two repeated elements, also in the quick tier
	p := newPlenc(cfgProto)
	var x V_KxCounted
	x.Fill("s")
	d, err := p.Marshal(nil, &x.V)
	evolve(d, err, x.V.A, x.V.B, p)
}

func H03_TimeProto() {
	setBounds()
	p := newPlenc(cfgProto)
	var x V_KxTime
	x.Fill("s")
	d, err := p.Marshal(nil, &x.V)
	evolve(d, err, x.V.A, x.V.B, p)
}

// H03_Nested: the evolved struct sits inside another struct.
func H03_Nested() {
	setBounds()
	p := newPlenc(cfgDef)
	var x V_KxNest
	x.Fill("s")
	d, err := p.Marshal(nil, &x.V)
	vrt.Assert("marshal ok", err == nil)
	var out cat.KxNestPrime
	err = p.Unmarshal(d, &out)
	vrt.Assert("decodes without error", err == nil)
	vrt.Assert("outer field after the nested struct", out.Zed == x.V.Z)
	vrt.Assert("nested field 1", out.Inner.Aye == x.V.In.A)
	vrt.Assert("nested field 3", out.Inner.Bee == x.V.In.B)
	vrt.Assert("nested added field", out.Inner.New == 0)
}

// H03_Element: ... inside slice elements.
func H03_Element() {
	setBounds()
	p := newPlenc(cfgDef)
	var x V_KxElem
	x.Fill("s")
	d, err := p.Marshal(nil, &x.V)
	vrt.Assert("marshal ok", err == nil)
	var out cat.KxElemPrime
	err = p.Unmarshal(d, &out)
	vrt.Assert("decodes without error", err == nil)
	vrt.Assert("field after the slice", out.Z == x.V.Z)
	vrt.Assert("element count", len(out.L) == len(x.V.L))
	if len(out.L) == len(x.V.L) {
		for i := range out.L {
			vrt.Assert("element field 1", out.L[i].Aye == x.V.L[i].A)
			vrt.Assert("element field 3", out.L[i].Bee == x.V.L[i].B)
		}
	}
}

// H03_MapValue: ... inside map values.
func H03_MapValue() {
	setBounds()
	p := newPlenc(cfgDef)
	var x V_KxVal
	x.Fill("s")
	d, err := p.Marshal(nil, &x.V)
	vrt.Assert("marshal ok", err == nil)
	var out cat.KxValPrime
	err = p.Unmarshal(d, &out)
	vrt.Assert("decodes without error", err == nil)
	vrt.Assert("field after the map", out.Z == x.V.Z)
	vrt.Assert("entry count", len(out.M) == len(x.Sh.M.K))
	for i, k := range x.Sh.M.K {
		v, ok := out.M[k]
		vrt.Assert("entry present", ok)
		if ok {
			vrt.Assert("value field 1", v.Aye == x.Sh.M.V[i].A)
			vrt.Assert("value field 3", v.Bee == x.Sh.M.V[i].B)
		}
	}
}

// the removed field is the last one in the data
func H03_LastCounted() {
	setBounds()
	p := newPlenc(cfgDef)
	var x V_KxLastCounted
	x.Fill("s")
	d, err := p.Marshal(nil, &x.V)
	evolve(d, err, x.V.A, x.V.B, p)
}

func H03_LastMap() {
	setBounds()
	p := newPlenc(cfgDef)
	var x V_KxLastMap
	x.Fill("s")
	d, err := p.Marshal(nil, &x.V)
	evolve(d, err, x.V.A, x.V.B, p)
}

func H03_LastStructs() {
	setBounds()
	p := newPlenc(cfgDef)
	var x V_KxLastStructs
	x.Fill("s")
	d, err := p.Marshal(nil, &x.V)
	evolve(d, err, x.V.A, x.V.B, p)
}

func H03_LastStr() {
	setBounds()
	p := newPlenc(cfgDef)
	var x V_KxLastStr
	x.Fill("s")
	d, err := p.Marshal(nil, &x.V)
	evolve(d, err, x.V.A, x.V.B, p)
}

// H03_FirstHigh: the writer declares the removed, highest-index field first;
// the evolved type declares its fields in ascending index order.
func H03_FirstHigh() {
	setBounds()
	p := newPlenc(cfgDef)
	var x V_KxFirstHigh
	x.Fill("s")
	d, err := p.Marshal(nil, &x.V)
	vrt.Assert("marshal ok", err == nil)
	var prior cat.KxPrimeAsc
	prior.Aye = vrt.Int("prior.Aye")
	prior.New = vrt.Int("prior.New")
	prior.Bee = vrt.String("prior.Bee", vrt.Choice("prior.Bee.len", 2))
	before := prior
	vrt.Assert("decodes without error", p.Unmarshal(d, &prior) == nil)
	vrt.Assert("shared field 1", prior.Aye == vrt.IteInt(x.V.A != 0, x.V.A, before.Aye))
	if len(x.V.B) != 0 {
		vrt.Assert("shared field 3", prior.Bee == x.V.B)
	} else {
		vrt.Assert("absent field keeps prior value", prior.Bee == before.Bee)
	}
	vrt.Assert("added field untouched", prior.New == before.New)
}

// H03_ProtoTagged: removed proto-tagged slice and map fields with two entries.
func H03_ProtoTagged() {
	setBounds()
	B.Slice, B.Map = 2, 2
	FillSmall = true
	p := newPlenc(cfgDef)
	var x V_TProtoM
	x.Fill("m")
	var y V_TProtoS
	y.Fill("s")
	FillSmall = false
	type sLess struct {
		Z int `plenc:"2"`
	}
	d, err := p.Marshal(nil, &x.V)
	vrt.Assert("marshal ok", err == nil)
	var ml sLess
	vrt.Assert("removed proto map skipped", p.Unmarshal(d, &ml) == nil)
	vrt.Assert("surviving field after repeated unknown map entries", ml.Z == x.V.Z)
	d2, err := p.Marshal(nil, &y.V)
	vrt.Assert("marshal ok", err == nil)
	var sl sLess
	vrt.Assert("removed proto slice skipped", p.Unmarshal(d2, &sl) == nil)
	vrt.Assert("surviving field after repeated unknown fields", sl.Z == y.V.Z)
}
