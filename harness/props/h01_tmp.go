package props

import (
	"github.com/philpearl/plenc"
	"vharness/vrt"
)

type TInts struct {
	A int    `plenc:"1"`
	B uint32 `plenc:"2"`
	C int8   `plenc:"3,flat"`
}

func H01_TInts() {
	var in TInts
	in.A = vrt.Int("A")
	in.B = vrt.U32("B")
	in.C = vrt.I8("C")
	data, err := plenc.Marshal(nil, &in)
	vrt.Assert("marshal ok", err == nil)
	vrt.ObserveBytes("data", data)
	var out TInts
	err = plenc.Unmarshal(data, &out)
	vrt.Assert("unmarshal ok", err == nil)
	vrt.Assert("A", in.A == out.A)
	vrt.Assert("B", in.B == out.B)
	vrt.Assert("C", in.C == out.C)
}
