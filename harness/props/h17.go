package props

// C17 — registrations and options are scoped to their Plenc instance and
// (type, tag) key.

import (
	"reflect"
	"unsafe"

	"github.com/philpearl/plenc"
	"github.com/philpearl/plenc/plenccodec"
	"github.com/philpearl/plenc/plenccore"
	"vharness/vrt"
)

type MyT int32
type MyU int
type MyPlain int // never registered: must fall back to the int codec

// markCodec writes a recognisable encoding no default codec produces: a
// 6-byte varint with bit 40 set over the low 32 bits of the value.
type markCodec struct{}

func markVal(v uint32) uint64 { return uint64(v) | 1<<40 }

func (markCodec) Omit(ptr unsafe.Pointer) bool { return false }
func (markCodec) Read(data []byte, ptr unsafe.Pointer, wt plenccore.WireType) (int, error) {
	u, n := plenccore.ReadVarUint(data)
	if n <= 0 {
		return 0, errBad
	}
	*(*int32)(ptr) = int32(uint32(u))
	return n, nil
}
func (markCodec) New() unsafe.Pointer          { return unsafe.Pointer(new(int32)) }
func (markCodec) WireType() plenccore.WireType { return plenccore.WTVarInt }
func (markCodec) Descriptor() plenccodec.Descriptor {
	return plenccodec.Descriptor{Type: plenccodec.FieldTypeUint}
}
func (markCodec) Size(ptr unsafe.Pointer, tag []byte) int {
	return len(tag) + 6
}
func (markCodec) Append(data []byte, ptr unsafe.Pointer, tag []byte) []byte {
	data = append(data, tag...)
	return plenccore.AppendVarUint(data, markVal(uint32(*(*int32)(ptr))))
}

// markCodecU is the same for the int-sized MyU (registered under tag "mk").
type markCodecU struct{}

func (markCodecU) Omit(ptr unsafe.Pointer) bool { return false }
func (markCodecU) Read(data []byte, ptr unsafe.Pointer, wt plenccore.WireType) (int, error) {
	u, n := plenccore.ReadVarUint(data)
	if n <= 0 {
		return 0, errBad
	}
	*(*int)(ptr) = int(int32(uint32(u)))
	return n, nil
}
func (markCodecU) New() unsafe.Pointer          { return unsafe.Pointer(new(int)) }
func (markCodecU) WireType() plenccore.WireType { return plenccore.WTVarInt }
func (markCodecU) Descriptor() plenccodec.Descriptor {
	return plenccodec.Descriptor{Type: plenccodec.FieldTypeUint}
}
func (markCodecU) Size(ptr unsafe.Pointer, tag []byte) int {
	return len(tag) + 6
}
func (markCodecU) Append(data []byte, ptr unsafe.Pointer, tag []byte) []byte {
	data = append(data, tag...)
	return plenccore.AppendVarUint(data, markVal(uint32(*(*int)(ptr))))
}

type errT struct{}

func (errT) Error() string { return "bad" }

var errBad error = errT{}

func refMark(buf []byte, v uint32) []byte { return refVarint(buf, markVal(v)) }

type sMyT struct {
	A MyT `plenc:"1"`
}
type sPtrMyT struct {
	A *MyT `plenc:"1"`
}
type sSliceMyT struct {
	A []MyT `plenc:"1"`
}
type sMapKeyMyT struct {
	A map[MyT]int `plenc:"1"`
}
type sMapValMyT struct {
	A map[int]MyT `plenc:"1"`
}
type sMyU struct {
	A MyU `plenc:"1,mk"`
	B MyU `plenc:"2"`
}
type sPlain struct {
	A MyPlain  `plenc:"1"`
	B []string `plenc:"2"`
}

func regInstance() *plenc.Plenc {
	p := new(plenc.Plenc)
	p.RegisterDefaultCodecs()
	p.RegisterCodec(reflect.TypeOf(MyT(0)), markCodec{})
	p.RegisterCodecWithTag(reflect.TypeOf(MyU(0)), "mk", markCodecU{})
	return p
}

func plainInstance() *plenc.Plenc {
	p := new(plenc.Plenc)
	p.RegisterDefaultCodecs()
	return p
}

func mustMarshal(p *plenc.Plenc, v interface{}) []byte {
	d, err := p.Marshal(nil, v)
	vrt.Assert("marshal ok", err == nil)
	return d
}

// H17_Positions: the registered codec is used wherever exactly that type
// occurs; an unregistering instance and the package default never see it.
func H17_Positions() {
	v := MyT(vrt.I32("v"))
	w := MyT(vrt.I32("w"))
	k := vrt.Int("k")
	p1 := regInstance()
	p2 := plainInstance()
	mk := refMark(nil, uint32(v))
	zz := func(x int64) []byte { return refVarint(nil, refZigZag(x)) }

	// as a value
	vrt.Assert("value: registered codec used", vrt.BytesEq(mustMarshal(p1, &v), mk))
	d2 := mustMarshal(p2, &v)
	var exp2 []byte
	if v != 0 {
		exp2 = zz(int64(v))
	}
	vrt.Assert("value: other instance falls back to the kind codec", vrt.BytesEq(d2, exp2))
	dd, err := plenc.Marshal(nil, &v)
	vrt.Assert("package-level marshal ok", err == nil)
	vrt.Assert("value: package default unaffected", vrt.BytesEq(dd, exp2))

	// struct field
	s := sMyT{A: v}
	vrt.Assert("field: registered codec used", vrt.BytesEq(mustMarshal(p1, &s), append(refTag(nil, 0, 1), mk...)))
	var es []byte
	if v != 0 {
		es = append(refTag(nil, 0, 1), zz(int64(v))...)
	}
	vrt.Assert("field: other instance", vrt.BytesEq(mustMarshal(p2, &s), es))

	// pointer target
	sp := sPtrMyT{A: &v}
	vrt.Assert("pointer target: registered codec used", vrt.BytesEq(mustMarshal(p1, &sp), append(refTag(nil, 0, 1), mk...)))
	vrt.Assert("pointer target: other instance", vrt.BytesEq(mustMarshal(p2, &sp), append(refTag(nil, 0, 1), zz(int64(v))...)))

	// slice element (packed)
	ss := sSliceMyT{A: []MyT{v, w}}
	body := append(append([]byte{}, mk...), refMark(nil, uint32(w))...)
	vrt.Assert("slice element: registered codec used", vrt.BytesEq(mustMarshal(p1, &ss), refLenField(nil, 1, body)))
	body2 := append(zz(int64(v)), zz(int64(w))...)
	vrt.Assert("slice element: other instance", vrt.BytesEq(mustMarshal(p2, &ss), refLenField(nil, 1, body2)))

	// map key
	smk := sMapKeyMyT{A: map[MyT]int{v: k}}
	entry := append(refTag(nil, 0, 1), mk...)
	if k != 0 {
		entry = append(refTag(entry, 0, 2), zz(int64(k))...)
	}
	e := refTag(nil, 3, 1)
	e = refVarint(e, 1)
	e = refVarint(e, uint64(len(entry)))
	e = append(e, entry...)
	vrt.Assert("map key: registered codec used", vrt.BytesEq(mustMarshal(p1, &smk), e))

	// map value
	smv := sMapValMyT{A: map[int]MyT{k: v}}
	var entry2 []byte
	if k != 0 {
		entry2 = append(refTag(entry2, 0, 1), zz(int64(k))...)
	}
	entry2 = append(refTag(entry2, 0, 2), mk...)
	e2 := refTag(nil, 3, 1)
	e2 = refVarint(e2, 1)
	e2 = refVarint(e2, uint64(len(entry2)))
	e2 = append(e2, entry2...)
	vrt.Assert("map value: registered codec used", vrt.BytesEq(mustMarshal(p1, &smv), e2))

	// round trips on the registering instance
	var outS sSliceMyT
	vrt.Assert("round trip ok", p1.Unmarshal(mustMarshal(p1, &ss), &outS) == nil)
	vrt.Assert("round trip through the registered codec", len(outS.A) == 2 && vrt.And(outS.A[0] == v, outS.A[1] == w))
}

// H17_TagKey: a codec registered under a tag name is used only where that tag
// option is given.
func H17_TagKey() {
	a := MyU(vrt.Int("a"))
	b := MyU(vrt.Int("b"))
	p1 := regInstance()
	p2 := plainInstance()
	s := sMyU{A: a, B: b}
	exp := append(refTag(nil, 0, 1), refMark(nil, uint32(a))...)
	if b != 0 {
		exp = append(refTag(exp, 0, 2), refVarint(nil, refZigZag(int64(b)))...)
	}
	vrt.Assert("tagged field uses the tagged registration, untagged field the kind codec", vrt.BytesEq(mustMarshal(p1, &s), exp))
	_, err := p2.Marshal(nil, &s)
	vrt.Assert("an instance without the tagged registration rejects the tag option", err != nil)
}

// H17_Isolation: options and registrations of other instances, created before
// or between uses, never change an instance's or the default's output.
func H17_Isolation() {
	n := vrt.Int("n")
	s := sPlain{A: MyPlain(n), B: []string{vrt.String("s", vrt.Choice("s.len", 2))}}
	p2 := plainInstance()
	before := mustMarshal(p2, &s)
	pkgBefore, err := plenc.Marshal(nil, &s)
	vrt.Assert("package marshal ok", err == nil)
	// another instance with different options and registrations
	p3 := &plenc.Plenc{ProtoCompatibleArrays: true, ProtoCompatibleTime: true}
	p3.RegisterDefaultCodecs()
	p3.RegisterCodec(reflect.TypeOf(MyPlain(0)), markCodecU{})
	d3 := mustMarshal(p3, &s)
	after := mustMarshal(p2, &s)
	pkgAfter, err := plenc.Marshal(nil, &s)
	vrt.Assert("package marshal ok", err == nil)
	vrt.Assert("instance output unchanged by another instance", vrt.BytesEq(before, after))
	vrt.Assert("package default unchanged by another instance", vrt.BytesEq(pkgBefore, pkgAfter))
	vrt.Assert("package-level functions behave like a default-configured instance", vrt.BytesEq(pkgBefore, before))
	// reference for the plain instance: named type without registration = its kind; counted slice
	var exp []byte
	if n != 0 {
		exp = append(refTag(exp, 0, 1), refVarint(nil, refZigZag(int64(n)))...)
	}
	exp = refTag(exp, 3, 2)
	exp = refVarint(exp, 1)
	exp = refVarint(exp, uint64(len(s.B[0])))
	exp = append(exp, s.B[0]...)
	vrt.Assert("unregistered named type encodes as its kind; default slice form", vrt.BytesEq(before, exp))
	// and the other instance really is different (marker + repeated-field form)
	exp3 := append(refTag(nil, 0, 1), refMark(nil, uint32(n))...)
	exp3 = refLenField(exp3, 2, []byte(s.B[0]))
	vrt.Assert("the configured instance uses its own registration and options", vrt.BytesEq(d3, exp3))
	// package-level unmarshal reads what a default instance wrote
	var out sPlain
	vrt.Assert("package-level unmarshal ok", plenc.Unmarshal(before, &out) == nil)
	vrt.Assert("package-level unmarshal value", vrt.And(out.A == s.A, len(out.B) == 1 && out.B[0] == s.B[0]))
	c1, err1 := plenc.CodecForType(reflect.TypeOf(s))
	vrt.Assert("package-level CodecForType ok", err1 == nil && c1 != nil)
}

// H17_DefaultLeak: registrations on the package-level default (also under a
// tag name) are not visible to other instances, and the other way round.
func H17_DefaultLeak() {
	a := MyU(vrt.Int("a"))
	plenc.RegisterCodecWithTag(reflect.TypeOf(MyU(0)), "mk", markCodecU{})
	plenc.RegisterCodecWithTag(reflect.TypeOf(int(0)), "odd", markCodecU{})
	p2 := plainInstance()
	s := sMyU{A: a, B: a}
	_, err := p2.Marshal(nil, &s)
	vrt.Assert("a tagged registration on the default is invisible to another instance", err != nil)
	type useOdd struct {
		A int `plenc:"1,odd"`
	}
	_, err = p2.Marshal(nil, &useOdd{A: 1})
	vrt.Assert("a tagged registration for a basic kind on the default is invisible too", err != nil)
	d, err := plenc.Marshal(nil, &s)
	vrt.Assert("the default itself uses it", err == nil)
	exp := append(refTag(nil, 0, 1), refMark(nil, uint32(a))...)
	if a != 0 {
		exp = append(refTag(exp, 0, 2), refVarint(nil, refZigZag(int64(a)))...)
	}
	vrt.Assert("default: tagged field marker, untagged field kind codec", vrt.BytesEq(d, exp))
	// an instance that registered nothing under "flat" for a type must not resolve it
	p3 := new(plenc.Plenc)
	p3.RegisterCodec(reflect.TypeOf(int(0)), markCodecU{})
	type useFlat struct {
		A int `plenc:"1,flat"`
	}
	_, err = p3.Marshal(nil, &useFlat{A: 1})
	vrt.Assert("an instance without a flat codec rejects the flat option", err != nil)
}

// ---- the same constructed type under two tag options in one struct build

type Score int

type sTagPairsA struct {
	A Score    `plenc:"1"`
	B Score    `plenc:"2,flat"`
	S []string `plenc:"3"`
	P []string `plenc:"4,proto"`
}

type sTagPairsB struct { // the other order: the option is met first
	B Score    `plenc:"1,flat"`
	A Score    `plenc:"2"`
	P []string `plenc:"3,proto"`
	S []string `plenc:"4"`
	N struct {
		A Score    `plenc:"1"`
		S []string `plenc:"2"`
	} `plenc:"5"`
}

func refCounted(ss []string) []byte {
	body := refVarint(nil, uint64(len(ss)))
	for _, s := range ss {
		body = refVarint(body, uint64(len(s)))
		body = append(body, s...)
	}
	return body
}

// H17_TagPairs: a (type, tag option) pair selects its codec independently of
// any other option the same type carries elsewhere in the struct being built.
func H17_TagPairs() {
	a, b := Score(vrt.Int("a")), Score(vrt.Int("b"))
	vrt.Assume(vrt.And(a != 0, b != 0))
	s0, p0 := vrt.String("s0", 1), vrt.String("p0", 1)
	ss, ps := []string{s0, "x"}, []string{p0, "y"}
	zz := func(buf []byte, idx int, v Score) []byte {
		return refVarint(refTag(buf, 0, idx), refZigZag(int64(v)))
	}
	fl := func(buf []byte, idx int, v Score) []byte { return refVarint(refTag(buf, 0, idx), uint64(v)) }
	protoS := func(buf []byte, idx int, v []string) []byte {
		for _, s := range v {
			buf = refLenField(buf, idx, []byte(s))
		}
		return buf
	}
	slice := func(buf []byte, idx int, v []string) []byte {
		return append(refTag(buf, 3, idx), refCounted(v)...)
	}
	{
		in := sTagPairsA{A: a, B: b, S: ss, P: ps}
		d, err := plainInstance().Marshal(nil, &in)
		vrt.Assert("marshal ok", err == nil)
		exp := protoS(slice(fl(zz(nil, 1, a), 2, b), 3, ss), 4, ps)
		vrt.Assert("plain option first: every field uses the codec of its own (type, option)", vrt.BytesEq(d, exp))
	}
	{
		in := sTagPairsB{A: a, B: b, S: ss, P: ps}
		in.N.A, in.N.S = a, ss
		d, err := plainInstance().Marshal(nil, &in)
		vrt.Assert("marshal ok", err == nil)
		exp := slice(protoS(zz(fl(nil, 1, b), 2, a), 3, ps), 4, ss)
		exp = refLenField(exp, 5, slice(zz(nil, 1, a), 2, ss))
		vrt.Assert("option first: every field uses the codec of its own (type, option)", vrt.BytesEq(d, exp))
	}
}
