package props

// Size-boundary harnesses: values whose shapes are concrete (one path, no
// case split) but large enough to cross the places where size-dependent
// arithmetic changes: 1->2 and 2->3 byte length prefixes (127/128,
// 16383/16384 bytes) and the capacity doublings of appended slices (8, 16, 32
// elements). Contents stay symbolic.

import (
	"reflect"
	"unsafe"

	"vharness/vrt"
)

type BigIn struct {
	S string `plenc:"1"`
	N int    `plenc:"2"`
}

type BigOuter struct {
	A  int      `plenc:"1"`
	In BigIn    `plenc:"2"`
	L  []string `plenc:"3"`
	P  []string `plenc:"4,proto"`
	Q  []BigIn  `plenc:"5,proto"`
	Z  int      `plenc:"6"`
}

var bigLens = []int{125, 126, 127, 128, 129, 16381, 16382, 16383, 16384, 16385}

func smallSym(nm string) int {
	v := vrt.Int(nm)
	vrt.Assume(vrt.And(v >= 1, v < 64))
	return v
}

func bigRef(v *BigOuter) []byte {
	var buf []byte
	if v.A != 0 {
		buf = refTag(buf, 0, 1)
		buf = refVarint(buf, refZigZag(int64(v.A)))
	}
	var in []byte
	if len(v.In.S) != 0 {
		in = refLenField(in, 1, []byte(v.In.S))
	}
	if v.In.N != 0 {
		in = refTag(in, 0, 2)
		in = refVarint(in, refZigZag(int64(v.In.N)))
	}
	buf = refLenField(buf, 2, in)
	if len(v.L) != 0 {
		buf = refTag(buf, 3, 3)
		buf = refVarint(buf, uint64(len(v.L)))
		for _, s := range v.L {
			buf = refVarint(buf, uint64(len(s)))
			buf = append(buf, s...)
		}
	}
	for _, s := range v.P {
		buf = refLenField(buf, 4, []byte(s))
	}
	for i := range v.Q {
		var e []byte
		if len(v.Q[i].S) != 0 {
			e = refLenField(e, 1, []byte(v.Q[i].S))
		}
		if v.Q[i].N != 0 {
			e = refTag(e, 0, 2)
			e = refVarint(e, refZigZag(int64(v.Q[i].N)))
		}
		buf = refLenField(buf, 5, e)
	}
	if v.Z != 0 {
		buf = refTag(buf, 0, 6)
		buf = refVarint(buf, refZigZag(int64(v.Z)))
	}
	return buf
}

func bigEq(a, b *BigOuter) bool {
	if len(a.L) != len(b.L) || len(a.P) != len(b.P) || len(a.Q) != len(b.Q) {
		return false
	}
	ok := vrt.And(a.A == b.A, vrt.And(a.Z == b.Z, vrt.And(a.In.S == b.In.S, a.In.N == b.In.N)))
	for i := range a.L {
		ok = vrt.And(ok, a.L[i] == b.L[i])
	}
	for i := range a.P {
		ok = vrt.And(ok, a.P[i] == b.P[i])
	}
	for i := range a.Q {
		ok = vrt.And(ok, vrt.And(a.Q[i].S == b.Q[i].S, a.Q[i].N == b.Q[i].N))
	}
	return ok
}

func bigCheck(in *BigOuter) {
	p := newPlenc(cfgDef)
	data, err := p.Marshal(nil, in)
	vrt.Assert("marshal ok", err == nil)
	vrt.Assert("bytes == documented encoding", vrt.BytesEq(data, bigRef(in)))
	var out BigOuter
	vrt.Assert("unmarshal ok", p.Unmarshal(data, &out) == nil)
	vrt.Assert("round trip", bigEq(in, &out))
	// codec laws on the nested struct codec with a tag (length prefix crosses the boundary)
	c, err := p.CodecForType(reflect.TypeOf(in.In))
	vrt.Assert("codec ok", err == nil)
	if err == nil {
		tag := []byte{0x12}
		ptr := unsafe.Pointer(&in.In)
		framed := c.Append(nil, ptr, tag)
		vrt.Assert("Size(tag) == len(Append)", c.Size(ptr, tag) == len(framed))
		body := c.Append(nil, ptr, nil)
		vrt.Assert("Size(nil) == len(Append)", c.Size(ptr, nil) == len(body))
		exp := refVarint(append([]byte{}, tag...), uint64(len(body)))
		exp = append(exp, body...)
		vrt.Assert("framing: tag, length, body", vrt.BytesEq(framed, exp))
	}
	// schema evolution: the big nested struct is an unknown field to skip
	type less struct {
		A int `plenc:"1"`
		Z int `plenc:"6"`
	}
	var l less
	vrt.Assert("skip ok", p.Unmarshal(data, &l) == nil)
	vrt.Assert("fields around the skipped ones", vrt.And(l.A == in.A, l.Z == in.Z))
}

// H01b_LengthPrefix: a nested struct whose body length sits on each side of
// the 1/2/3-byte length-prefix boundaries.
func H01b_LengthPrefix() {
	n := bigLens[vrt.Choice("len", len(bigLens))]
	var in BigOuter
	in.A = smallSym("A")
	in.Z = smallSym("Z")
	in.In.N = smallSym("N") // 2 bytes: tag + value
	// body = 1 (tag) + varint(len S) + len S + 2  => choose len S so that body == n
	ls := n - 2 - 1 - 1
	if ls >= 128 {
		ls--
	}
	if ls >= 16384 {
		ls--
	}
	in.In.S = vrt.String("S", ls)
	bigCheck(&in)
}

// H01b_ManyElements: slices long enough to cross the growth steps of the
// appending (repeated-field) readers: 8, 16, 32 elements.
func H01b_ManyElements() {
	n := []int{7, 8, 9, 16, 17, 32, 33}[vrt.Choice("n", 7)]
	var in BigOuter
	in.A = smallSym("A")
	in.Z = smallSym("Z")
	in.L = make([]string, n)
	in.P = make([]string, n)
	in.Q = make([]BigIn, n)
	for i := 0; i < n; i++ {
		in.L[i] = vrt.String("l", 1)
		in.P[i] = vrt.String("p", 1)
		in.Q[i].S = vrt.String("q", 1)
		in.Q[i].N = smallSym("qn")
	}
	bigCheck(&in)
}

// the same bodies under the other properties they decide
func H02b_LengthPrefix() { H01b_LengthPrefix() }
func H02b_ManyElements() { H01b_ManyElements() }
func H03b_LengthPrefix() { H01b_LengthPrefix() }
func H05b_LengthPrefix() { H01b_LengthPrefix() }
func H12b_ManyElements() { H01b_ManyElements() }

// H12b_CrossMany: a default-mode instance reads the repeated-field form of a
// long slice written by a proto-compatible instance (appending reader crossing
// its growth steps).
func H12b_CrossMany() {
	n := []int{8, 9, 16, 17, 33}[vrt.Choice("n", 5)]
	type row struct {
		L []string `plenc:"1"`
		Q []BigIn  `plenc:"2"`
		Z int      `plenc:"3"`
	}
	var in row
	in.Z = smallSym("Z")
	in.L = make([]string, n)
	in.Q = make([]BigIn, n)
	for i := 0; i < n; i++ {
		in.L[i] = vrt.String("l", 1)
		in.Q[i].N = smallSym("qn")
	}
	pp := newPlenc(cfgArr)
	pd := newPlenc(cfgDef)
	data, err := pp.Marshal(nil, &in)
	vrt.Assert("marshal ok", err == nil)
	var out row
	vrt.Assert("default-mode unmarshal ok", pd.Unmarshal(data, &out) == nil)
	ok := out.Z == in.Z
	vrt.Assert("lengths", len(out.L) == n && len(out.Q) == n)
	if len(out.L) == n && len(out.Q) == n {
		for i := 0; i < n; i++ {
			ok = vrt.And(ok, vrt.And(out.L[i] == in.L[i], out.Q[i].N == in.Q[i].N))
		}
		vrt.Assert("default mode reads every repeated element", ok)
	}
}

// H05b_WideStruct: a struct of many wide scalar fields with two-byte tags
// whose body crosses 128 bytes (framing shortcuts for "small" structs).
func H05b_WideStruct() {
	type wide struct {
		A uint64  `plenc:"16"`
		B uint64  `plenc:"17"`
		C uint64  `plenc:"18"`
		D uint64  `plenc:"19"`
		E uint64  `plenc:"20"`
		F uint64  `plenc:"21"`
		G uint64  `plenc:"22"`
		H uint64  `plenc:"23"`
		I uint64  `plenc:"24"`
		J uint64  `plenc:"25"`
		K uint64  `plenc:"26"`
		L float64 `plenc:"27"`
	}
	type outer struct {
		W wide `plenc:"1"`
		Z int  `plenc:"2"`
	}
	big := func(nm string) uint64 {
		v := vrt.U64(nm)
		vrt.Assume(v >= 1<<63)
		return v
	}
	in := outer{W: wide{A: big("a"), B: big("b"), C: big("c"), D: big("d"), E: big("e"), F: big("f"), G: big("g"), H: big("h"), I: big("i"), J: big("j"), K: big("k"), L: 1.5}, Z: smallSym("Z")}
	p := newPlenc(cfgDef)
	c, err := p.CodecForType(reflect.TypeOf(in.W))
	vrt.Assert("codec ok", err == nil)
	if err != nil {
		return
	}
	tag := []byte{0x0a}
	ptr := unsafe.Pointer(&in.W)
	body := c.Append(nil, ptr, nil)
	framed := c.Append(nil, ptr, tag)
	vrt.Assert("body is 11*(2+10)+2+8 bytes", len(body) == 142)
	vrt.Assert("Size(nil) == len(Append)", c.Size(ptr, nil) == len(body))
	vrt.Assert("Size(tag) == len(Append)", c.Size(ptr, tag) == len(framed))
	exp := refVarint(append([]byte{}, tag...), uint64(len(body)))
	vrt.Assert("framing: tag, length, body", vrt.BytesEq(framed, append(exp, body...)))
	data, err := p.Marshal(nil, &in)
	vrt.Assert("marshal ok", err == nil)
	var out outer
	vrt.Assert("unmarshal ok", p.Unmarshal(data, &out) == nil)
	vrt.Assert("round trip", vrt.And(out.Z == in.Z, vrt.And(out.W.A == in.W.A, out.W.K == in.W.K)))
}

func H01b_WideStruct() { H05b_WideStruct() }

// H05b_WideVarints: eleven 10-byte varints with two-byte tags: 132 bytes of
// body although a one-byte-per-tag estimate stays under 128.
func H05b_WideVarints() {
	type wide struct {
		A uint64 `plenc:"16"`
		B uint64 `plenc:"17"`
		C uint64 `plenc:"18"`
		D uint64 `plenc:"19"`
		E uint64 `plenc:"20"`
		F uint64 `plenc:"21"`
		G uint64 `plenc:"22"`
		H uint64 `plenc:"23"`
		I uint64 `plenc:"24"`
		J uint64 `plenc:"25"`
		K uint64 `plenc:"26"`
	}
	type outer struct {
		W wide `plenc:"1"`
		Z int  `plenc:"2"`
	}
	big := func(nm string) uint64 {
		v := vrt.U64(nm)
		vrt.Assume(v >= 1<<63)
		return v
	}
	in := outer{W: wide{A: big("a"), B: big("b"), C: big("c"), D: big("d"), E: big("e"), F: big("f"), G: big("g"), H: big("h"), I: big("i"), J: big("j"), K: big("k")}, Z: smallSym("Z")}
	wideCheck(&in, &in.W, func(o *outer) bool { return vrt.And(o.Z == in.Z, vrt.And(o.W.A == in.W.A, o.W.K == in.W.K)) }, 132)
}

// H05b_WideFloats: fourteen float64 fields with two-byte tags (140 bytes).
func H05b_WideFloats() {
	type wide struct {
		A float64 `plenc:"16"`
		B float64 `plenc:"17"`
		C float64 `plenc:"18"`
		D float64 `plenc:"19"`
		E float64 `plenc:"20"`
		F float64 `plenc:"21"`
		G float64 `plenc:"22"`
		H float64 `plenc:"23"`
		I float64 `plenc:"24"`
		J float64 `plenc:"25"`
		K float64 `plenc:"26"`
		L float64 `plenc:"27"`
		M float64 `plenc:"28"`
		N float64 `plenc:"29"`
	}
	type outer struct {
		W wide `plenc:"1"`
		Z int  `plenc:"2"`
	}
	in := outer{W: wide{1, 2, 3, 4, 5, 6, 7, 8, 9, 10, 11, 12, 13, 14}, Z: smallSym("Z")}
	wideCheck(&in, &in.W, func(o *outer) bool { return vrt.And(o.Z == in.Z, o.W.N == 14 && o.W.A == 1) }, 140)
}

func wideCheck[O any, W any](in *O, w *W, same func(*O) bool, bodyLen int) {
	p := newPlenc(cfgDef)
	c, err := p.CodecForType(reflect.TypeOf(*w))
	vrt.Assert("codec ok", err == nil)
	if err != nil {
		return
	}
	tag := []byte{0x0a}
	ptr := unsafe.Pointer(w)
	body := c.Append(nil, ptr, nil)
	framed := c.Append(nil, ptr, tag)
	vrt.Assert("body length", len(body) == bodyLen)
	vrt.Assert("Size(nil) == len(Append)", c.Size(ptr, nil) == len(body))
	vrt.Assert("Size(tag) == len(Append)", c.Size(ptr, tag) == len(framed))
	exp := refVarint(append([]byte{}, tag...), uint64(len(body)))
	vrt.Assert("framing: tag, length, body", vrt.BytesEq(framed, append(exp, body...)))
	data, err := p.Marshal(nil, in)
	vrt.Assert("marshal ok", err == nil)
	var out O
	vrt.Assert("unmarshal ok", p.Unmarshal(data, &out) == nil)
	vrt.Assert("round trip", same(&out))
}

// H05b_PackedBig: a packed slice whose body is several thousand bytes (the
// back-filled length of a single-pass writer needs two bytes, nearly three).
func H05b_PackedBig() {
	n := []int{818, 819, 820, 1638, 1639}[vrt.Choice("n", 5)] // x10 bytes: around 8192 and 16384
	type row struct {
		A []uint64 `plenc:"1"`
		Z int      `plenc:"2"`
	}
	in := row{A: make([]uint64, n), Z: smallSym("Z")}
	for i := range in.A {
		in.A[i] = ^uint64(i) // ten bytes each
	}
	in.A[0] = vrt.U64("a0") | 1<<63
	in.A[n-1] = vrt.U64("aN") | 1<<63
	p := newPlenc(cfgDef)
	c, err := p.CodecForType(reflect.TypeOf(in.A))
	vrt.Assert("codec ok", err == nil)
	if err != nil {
		return
	}
	tag := []byte{0x0a}
	ptr := unsafe.Pointer(&in.A)
	body := c.Append(nil, ptr, nil)
	framed := c.Append(nil, ptr, tag)
	vrt.Assert("body length", len(body) == 10*n)
	vrt.Assert("Size(tag) == len(Append)", c.Size(ptr, tag) == len(framed))
	exp := refVarint(append([]byte{}, tag...), uint64(len(body)))
	vrt.Assert("framing: tag, length, body", vrt.BytesEq(framed, append(exp, body...)))
	data, err := p.Marshal(nil, &in)
	vrt.Assert("marshal ok", err == nil)
	var out row
	vrt.Assert("unmarshal ok", p.Unmarshal(data, &out) == nil)
	vrt.Assert("round trip", len(out.A) == n && vrt.And(out.Z == in.Z, vrt.And(out.A[0] == in.A[0], out.A[n-1] == in.A[n-1])))
}

// H01b_MapEntry: map entries whose encoded size sits on the length-prefix boundaries.
func H01b_MapEntry() {
	n := []int{126, 127, 128, 16382, 16383, 16384}[vrt.Choice("entry", 6)]
	// entry = tag(1) len(1) "k" + tag(1) varint(len v) v  => 3 + 1 + lv + len(v)
	lv := n - 5
	if lv >= 128 {
		lv--
	}
	type row struct {
		M map[string]string `plenc:"1"`
		P map[string]string `plenc:"2,proto"`
		Z int               `plenc:"3"`
	}
	v := vrt.String("v", lv)
	in := row{M: map[string]string{"k": v}, P: map[string]string{"k": v}, Z: smallSym("Z")}
	p := newPlenc(cfgDef)
	data, err := p.Marshal(nil, &in)
	vrt.Assert("marshal ok", err == nil)
	entry := refLenField(refLenField(nil, 1, []byte("k")), 2, []byte(v))
	vrt.Assert("entry size as intended", len(entry) == n)
	exp := refTag(nil, 3, 1)
	exp = refVarint(exp, 1)
	exp = refVarint(exp, uint64(len(entry)))
	exp = append(exp, entry...)
	exp = refLenField(exp, 2, entry)
	exp = refTag(exp, 0, 3)
	exp = refVarint(exp, refZigZag(int64(in.Z)))
	vrt.Assert("bytes == documented encoding", vrt.BytesEq(data, exp))
	var out row
	vrt.Assert("unmarshal ok", p.Unmarshal(data, &out) == nil)
	vrt.Assert("round trip", vrt.And(out.Z == in.Z, vrt.And(out.M["k"] == v, out.P["k"] == v)))
}

func H02b_MapEntry() { H01b_MapEntry() }
func H05b_MapEntry() { H01b_MapEntry() }
