package props

// Native replay of solver models against the real library. The engine writes
// a batch file (JSON list of {harness, entries}); every replay's result is
// appended to the output file as one JSON line, preceded by a start marker so
// that a hard crash or hang can be attributed to the replay in flight.

import (
	"encoding/json"
	"fmt"
	"os"
	"runtime"
	"runtime/debug"
	"testing"
	"time"

	"vharness/vrt"
)

type replayJob struct {
	ID       int         `json:"id"`
	Harness  string      `json:"harness"`
	Entries  []vrt.Entry `json:"entries"`
	Repeat   int         `json:"repeat"` // run up to Repeat times until an assertion fails / panic (map order)
	WantFail bool        `json:"want_fail"`
	Thorough bool        `json:"thorough"` // the path was explored at the thorough bounds
	Mid      bool        `json:"mid"`      // ... at the intermediate ones
}

type replayOut struct {
	ID         int              `json:"id"`
	Start      bool             `json:"start,omitempty"`
	Result     *vrt.Result      `json:"result,omitempty"`
	AllocBytes uint64           `json:"alloc_bytes"`
	Tries      int              `json:"tries"`
	LoopTicks  map[string]int64 `json:"loop_ticks,omitempty"`
}

// set by the verification overlay (instrumented build) only
var (
	loopTicksFn    func() []int64
	loopTicksReset func()
)

func runOne(h func(), name string, entries []vrt.Entry) (res *vrt.Result, alloc uint64) {
	var ms0, ms1 runtime.MemStats
	runtime.ReadMemStats(&ms0)
	defer func() {
		runtime.ReadMemStats(&ms1)
		alloc = ms1.TotalAlloc - ms0.TotalAlloc
		if r := recover(); r != nil {
			res = vrt.Current()
			if res == nil {
				res = &vrt.Result{Harness: name}
			}
			if vrt.IsInfeasible(r) {
				res.Infeasible = true
			} else {
				res.Panic = fmt.Sprint(r)
			}
			vrt.End()
		}
	}()
	vrt.Begin(name, entries)
	h()
	return vrt.End(), 0
}

func failed(r *vrt.Result) bool {
	if r.Panic != "" {
		return true
	}
	for _, a := range r.Asserts {
		if !a.OK {
			return true
		}
	}
	return false
}

func TestReplay(t *testing.T) {
	in, out := os.Getenv("VRT_REPLAY"), os.Getenv("VRT_OUT")
	if in == "" {
		t.Skip("no VRT_REPLAY")
	}
	debug.SetMaxStack(256 << 20)
	raw, err := os.ReadFile(in)
	if err != nil {
		t.Fatal(err)
	}
	var jobs []replayJob
	if err := json.Unmarshal(raw, &jobs); err != nil {
		t.Fatal(err)
	}
	f, err := os.OpenFile(out, os.O_APPEND|os.O_CREATE|os.O_WRONLY, 0o644)
	if err != nil {
		t.Fatal(err)
	}
	defer f.Close()
	emit := func(o replayOut) {
		b, _ := json.Marshal(o)
		f.Write(append(b, '\n'))
		f.Sync()
	}
	for _, j := range jobs {
		h, ok := Registry[j.Harness]
		if !ok {
			emit(replayOut{ID: j.ID, Result: &vrt.Result{Harness: j.Harness, Mismatch: "unknown harness"}})
			continue
		}
		emit(replayOut{ID: j.ID, Start: true})
		done := make(chan struct{})
		go func(id int) {
			select {
			case <-done:
			case <-time.After(5 * time.Second):
				emit(replayOut{ID: id, Result: &vrt.Result{Harness: j.Harness, Timeout: true}})
				os.Exit(3)
			}
		}(j.ID)
		var res *vrt.Result
		var alloc uint64
		tries := 0
		n := j.Repeat
		if n < 1 {
			n = 1
		}
		vrt.NativeThorough = j.Thorough
		vrt.NativeMid = j.Mid
		for i := 0; i < n; i++ {
			tries++
			if loopTicksReset != nil {
				loopTicksReset()
			}
			res, alloc = runOne(h, j.Harness, j.Entries)
			if !j.WantFail || failed(res) {
				break
			}
		}
		close(done)
		o := replayOut{ID: j.ID, Result: res, AllocBytes: alloc, Tries: tries}
		if loopTicksFn != nil {
			o.LoopTicks = map[string]int64{}
			for id, v := range loopTicksFn() {
				if v > 0 {
					o.LoopTicks[fmt.Sprint(id)] = v
				}
			}
		}
		emit(o)
	}
}
