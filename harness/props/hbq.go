package props

// Exported codecs that CodecForType never builds on its own: the BigQuery
// timestamp codec (C05 laws, C01 round trip, C14 descriptor).

import (
	"reflect"
	"time"
	"unsafe"

	"github.com/philpearl/plenc"
	"github.com/philpearl/plenc/plenccodec"
	"vharness/vrt"
)

type bqRow struct {
	T time.Time `plenc:"1"`
	N int       `plenc:"2"`
}

func newPlencBQ() *plenc.Plenc {
	p := new(plenc.Plenc)
	p.RegisterDefaultCodecs()
	p.RegisterCodec(reflect.TypeOf(time.Time{}), plenccodec.BQTimestampCodec{})
	return p
}

// bqTime: boundary seconds (enumerated) with an arbitrary microsecond part
// (symbolic). Stated bound: the codec multiplies seconds by 10^6, which none of
// the installed solvers handles at full width (probed: unknown after 20 s per
// query), so the seconds are not symbolic here.
func bqTime(nm string) time.Time {
	secs := []int64{0, 1, -1, 1700000000, -2208988800, 1<<31 - 1, 253402300799}
	s := secs[vrt.Choice(nm+".sec", len(secs))]
	us := vrt.I64(nm + ".usec")
	vrt.Assume(vrt.And(us >= 0, us < 1000000))
	return time.Unix(s, us*1000)
}

// H05q_BQTimestamp: Size == len(Append), with and without a tag; framing; Read
// consumes the body.
func H05q_BQTimestamp() {
	t := bqTime("t")
	c := plenccodec.BQTimestampCodec{}
	ptr := unsafe.Pointer(&t)
	if c.Omit(ptr) {
		return
	}
	body := c.Append(nil, ptr, nil)
	vrt.Assert("Size(nil tag) == len(Append)", c.Size(ptr, nil) == len(body))
	tag := []byte{0x08}
	framed := c.Append(nil, ptr, tag)
	vrt.Assert("Size(tag) == len(Append)", c.Size(ptr, tag) == len(framed))
	vrt.Assert("framing: tag, body", vrt.BytesEq(framed, append([]byte{0x08}, body...)))
	var back time.Time
	n, err := c.Read(body, unsafe.Pointer(&back), c.WireType())
	vrt.Assert("Read(body) ok", err == nil)
	vrt.Assert("Read consumes exactly the body", n == len(body))
}

// H05q_BQInStruct: inside a struct the length prefixes derived from Size must
// be exact: the row round-trips and the field after the timestamp survives.
func H05q_BQInStruct() {
	p := newPlencBQ()
	in := bqRow{T: bqTime("t"), N: vrt.Int("N")}
	vrt.Assume(vrt.And(in.N >= -64, in.N < 64))
	wrap := struct {
		R bqRow `plenc:"1"`
		Z int   `plenc:"2"`
	}{R: in, Z: 7}
	data, err := p.Marshal(nil, &wrap)
	vrt.Assert("marshal ok", err == nil)
	vrt.ObserveBytes("data", data)
	out := wrap
	out.R = bqRow{}
	out.Z = 0
	vrt.Assert("unmarshal ok", p.Unmarshal(data, &out) == nil)
	vrt.Assert("field after the nested row", out.Z == 7)
	vrt.Assert("row field after the timestamp", out.R.N == in.N)
}

// H05q_BQValues: the value round trip on boundary instants (the microsecond
// arithmetic is not inverted symbolically; stated reduced bound).
func H05q_BQValues() {
	p := newPlencBQ()
	secs := []int64{0, 1, -1, 1700000000, -2208988800, 1<<31 - 1, -(1 << 31), 253402300799}
	us := []int64{0, 1, 999999, 500000}
	in := bqRow{T: time.Unix(secs[vrt.Choice("sec", len(secs))], us[vrt.Choice("usec", len(us))]*1000), N: 5}
	data, err := p.Marshal(nil, &in)
	vrt.Assert("marshal ok", err == nil)
	var out bqRow
	vrt.Assert("unmarshal ok", p.Unmarshal(data, &out) == nil)
	vrt.Assert("field after the timestamp", out.N == 5)
	vrt.Assert("timestamp (microseconds)", out.T.UnixMicro() == in.T.UnixMicro())
	vrt.Assert("zero time stays zero", in.T.IsZero() == out.T.IsZero())
}

// H14q_ExportedCodecs: descriptors of the exported codecs.
func H14q_ExportedCodecs() {
	d := plenccodec.BQTimestampCodec{}.Descriptor()
	vrt.Assert("BigQuery timestamp: flat int with timestamp logical type", d.Type == plenccodec.FieldTypeFlatInt && d.LogicalType == plenccodec.LogicalTypeTimestamp)
	dm := plenccodec.JSONMapCodec{}.Descriptor()
	vrt.Assert("JSON map: JSON object", dm.Type == plenccodec.FieldTypeJSONObject && len(dm.Elements) == 0)
	da := plenccodec.JSONArrayCodec{}.Descriptor()
	vrt.Assert("JSON array: JSON array", da.Type == plenccodec.FieldTypeJSONArray && len(da.Elements) == 0)
	pj := newPlencJSON()
	c, err := pj.CodecForType(reflect.TypeOf(TJSON{}))
	vrt.Assert("codec ok", err == nil)
	if err == nil {
		ds := c.Descriptor()
		ok := len(ds.Elements) == 4 && ds.Elements[1].Type == plenccodec.FieldTypeJSONObject && ds.Elements[1].Index == 2 && ds.Elements[1].Name == "M" &&
			ds.Elements[2].Type == plenccodec.FieldTypeJSONArray && ds.Elements[2].Index == 3 && ds.Elements[2].Name == "L"
		vrt.Assert("struct with JSON fields", ok)
	}
	vrt.Cover("compared")
}
