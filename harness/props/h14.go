package props

// C14 support: structural comparison of descriptors and the combinators the
// generated expected descriptors use.

import (
	"github.com/philpearl/plenc/plenccodec"
)

func withPresence(d plenccodec.Descriptor) plenccodec.Descriptor {
	d.ExplicitPresence = true
	return d
}

func fieldDesc(index int, name string, d plenccodec.Descriptor) plenccodec.Descriptor {
	d.Index = index
	d.Name = name
	return d
}

// mapDesc: a map is described as a slice (logical type map) of entry structs
// (logical type map entry) with key = field 1 and value = field 2.
func mapDesc(k, v plenccodec.Descriptor) plenccodec.Descriptor {
	kn, vn := k.TypeName, v.TypeName
	if kn == "" {
		kn = k.Type.String()
	}
	if vn == "" {
		vn = v.Type.String()
	}
	k.Index, k.Name = 1, "key"
	v.Index, v.Name = 2, "value"
	return plenccodec.Descriptor{
		Type:        plenccodec.FieldTypeSlice,
		LogicalType: plenccodec.LogicalTypeMap,
		Elements: []plenccodec.Descriptor{{
			Type:        plenccodec.FieldTypeStruct,
			LogicalType: plenccodec.LogicalTypeMapEntry,
			TypeName:    "map_" + kn + "_" + vn,
			Elements:    []plenccodec.Descriptor{k, v},
		}},
	}
}

func descEq(a, b *plenccodec.Descriptor) bool {
	// the type name of a synthesised map-entry struct is not part of the property
	sameTypeName := a.TypeName == b.TypeName || a.LogicalType == plenccodec.LogicalTypeMapEntry
	if a.Index != b.Index || a.Name != b.Name || a.Type != b.Type || !sameTypeName ||
		a.ExplicitPresence != b.ExplicitPresence || a.LogicalType != b.LogicalType || len(a.Elements) != len(b.Elements) {
		return false
	}
	for i := range a.Elements {
		if !descEq(&a.Elements[i], &b.Elements[i]) {
			return false
		}
	}
	return true
}

// ---- (a) symbolic definitions: names come from the json tag ----

// refJSONName: the descriptor name is the json tag's text before the first
// comma when that is non-empty, otherwise the Go field name.
func refJSONName(tag, goName string) string {
	n := len(tag)
	for i := 0; i < len(tag); i++ {
		if tag[i] == ',' {
			n = i
			break
		}
	}
	if n == 0 {
		return goName
	}
	return tag[:n]
}
