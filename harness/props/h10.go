package props

// C10 (a) — merge rules when the target already holds data.

import (
	"vharness/cat"
	"vharness/vrt"
)

func eqIn(a, b *cat.TIn) bool { return vrt.And(a.X == b.X, a.Y == b.Y) }

// mergeIn is the documented rule for a struct: present fields overwrite,
// absent (zero, hence omitted) fields keep the prior value.
func mergeIn(prior, src cat.TIn) cat.TIn {
	out := prior
	out.X = vrt.IteInt(src.X != 0, src.X, prior.X)
	if len(src.Y) != 0 {
		out.Y = src.Y
	}
	return out
}

// H10m_Struct: flat struct into a populated target.
func H10m_Struct() {
	setBounds()
	p := newPlenc(cfgDef)
	var prior, src V_TIn
	prior.Fill("prior")
	src.Fill("src")
	data, err := p.Marshal(nil, &src.V)
	vrt.Assert("marshal ok", err == nil)
	tgt := prior.V
	vrt.Assert("unmarshal ok", p.Unmarshal(data, &tgt) == nil)
	exp := mergeIn(prior.V, src.V)
	vrt.Assert("present overwrite, absent keep", eqIn(&exp, &tgt))
}

// H10m_Nested: nested struct merged recursively.
func H10m_Nested() {
	setBounds()
	p := newPlenc(cfgDef)
	var prior, src V_TNested
	FillSmall = true
	prior.Fill("prior")
	FillSmall = false
	src.Fill("src")
	data, err := p.Marshal(nil, &src.V)
	vrt.Assert("marshal ok", err == nil)
	tgt := prior.V
	vrt.Assert("unmarshal ok", p.Unmarshal(data, &tgt) == nil)
	expA := mergeIn(prior.V.A, src.V.A)
	vrt.Assert("nested struct merged field by field", eqIn(&expA, &tgt.A))
	vrt.Assert("outer field", tgt.B == vrt.IteInt(src.V.B != 0, src.V.B, prior.V.B))
}

// H10m_Pointers: nil source pointers leave the target alone, non-nil ones
// overwrite the pointee (struct pointees are merged recursively).
func H10m_Pointers() {
	setBounds()
	p := newPlenc(cfgDef)
	var prior, src V_TPtrs
	FillSmall = true
	prior.Fill("prior")
	FillSmall = false
	src.Fill("src")
	data, err := p.Marshal(nil, &src.V)
	vrt.Assert("marshal ok", err == nil)
	tgt := prior.V
	var priorC cat.TIn
	if prior.V.C != nil {
		priorC = *prior.V.C
	}
	var priorA int
	if prior.V.A != nil {
		priorA = *prior.V.A
	}
	var priorB string
	if prior.V.B != nil {
		priorB = *prior.V.B
	}
	vrt.Assert("unmarshal ok", p.Unmarshal(data, &tgt) == nil)
	if src.V.A == nil {
		vrt.Assert("absent *int keeps pointer", tgt.A == prior.V.A)
		if tgt.A != nil {
			vrt.Assert("absent *int keeps pointee", *tgt.A == priorA)
		}
	} else {
		vrt.Assert("present *int is non-nil", tgt.A != nil)
		if tgt.A != nil {
			vrt.Assert("present *int overwritten (zero included)", *tgt.A == *src.V.A)
		}
	}
	if src.V.B == nil {
		vrt.Assert("absent *string keeps pointer", tgt.B == prior.V.B)
		if tgt.B != nil {
			vrt.Assert("absent *string keeps pointee", *tgt.B == priorB)
		}
	} else {
		vrt.Assert("present *string is non-nil", tgt.B != nil)
		if tgt.B != nil {
			vrt.Assert("present *string overwritten (empty included)", *tgt.B == *src.V.B)
		}
	}
	if src.V.C == nil {
		vrt.Assert("absent *struct keeps pointer", tgt.C == prior.V.C)
	} else {
		vrt.Assert("present *struct is non-nil", tgt.C != nil)
		if tgt.C != nil {
			exp := mergeIn(priorC, *src.V.C)
			vrt.Assert("present *struct merged into existing pointee", eqIn(&exp, tgt.C))
		}
	}
}

// dirtyIns returns a slice of n elements with `spare` further elements of
// arbitrary garbage in its spare capacity.
func dirtyIns(nm string, n, spare int) []cat.TIn {
	s := make([]cat.TIn, n+spare)
	for i := range s {
		s[i].X = vrt.Int(idx(nm+".X", i))
		s[i].Y = vrt.String(idx(nm+".Y", i), 1)
	}
	return s[:n]
}

// H10m_CountedSlice: a decoded slice holds exactly the encoded elements; a
// re-used backing array is cleared first (absent element fields read zero).
func H10m_CountedSlice() {
	setBounds()
	p := newPlenc(cfgDef)
	var src V_TopIns
	src.Fill("src")
	data, err := p.Marshal(nil, &src.V)
	vrt.Assert("marshal ok", err == nil)
	n := vrt.Choice("prior.len", 3)
	spare := vrt.Choice("prior.spare", 3)
	tgt := dirtyIns("prior", n, spare)
	vrt.Assert("unmarshal ok", p.Unmarshal(data, &tgt) == nil)
	vrt.Assert("exactly the encoded elements", len(tgt) == len(src.V))
	if len(tgt) == len(src.V) {
		for i := range tgt {
			vrt.Assert("element equals the encoded one (no stale fields)", eqIn(&src.V[i], &tgt[i]))
		}
	}
}

// H10m_PackedSlice: likewise for packed scalar slices.
func H10m_PackedSlice() {
	setBounds()
	p := newPlenc(cfgDef)
	var src V_TopInts
	src.Fill("src")
	data, err := p.Marshal(nil, &src.V)
	vrt.Assert("marshal ok", err == nil)
	n := vrt.Choice("prior.len", 3)
	spare := vrt.Choice("prior.spare", 3)
	tgt := make([]int, n+spare)
	for i := range tgt {
		tgt[i] = vrt.Int(idx("prior", i))
	}
	tgt = tgt[:n]
	vrt.Assert("unmarshal ok", p.Unmarshal(data, &tgt) == nil)
	vrt.Assert("exactly the encoded elements", len(tgt) == len(src.V))
	if len(tgt) == len(src.V) {
		for i := range tgt {
			vrt.Assert("element value", tgt[i] == src.V[i])
		}
	}
}

// H10m_SliceField: a slice field inside a struct: absent keeps, present replaces.
func H10m_SliceField() {
	setBounds()
	p := newPlenc(cfgDef)
	var src V_TCounted
	src.Fill("src")
	data, err := p.Marshal(nil, &src.V)
	vrt.Assert("marshal ok", err == nil)
	var tgt cat.TCounted
	n := vrt.Choice("prior.len", 3)
	tgt.C = dirtyIns("prior", n, vrt.Choice("prior.spare", 2))
	tgt.A = []string{"old"}
	vrt.Assert("unmarshal ok", p.Unmarshal(data, &tgt) == nil)
	if len(src.V.C) == 0 {
		vrt.Assert("absent slice keeps prior", len(tgt.C) == n)
	} else {
		vrt.Assert("present slice replaced", len(tgt.C) == len(src.V.C))
		if len(tgt.C) == len(src.V.C) {
			for i := range tgt.C {
				vrt.Assert("element equals the encoded one", eqIn(&src.V.C[i], &tgt.C[i]))
			}
		}
	}
	if len(src.V.A) == 0 {
		vrt.Assert("absent []string keeps prior", len(tgt.A) == 1 && tgt.A[0] == "old")
	} else {
		vrt.Assert("present []string replaced", len(tgt.A) == len(src.V.A))
	}
}

// H10m_ProtoAppend: in the protobuf repeated-field form decoded elements are
// appended to the existing ones.
func H10m_ProtoAppend() {
	setBounds()
	p := newPlenc(cfgDef)
	var src V_TProtoS
	src.Fill("src")
	data, err := p.Marshal(nil, &src.V)
	vrt.Assert("marshal ok", err == nil)
	var tgt cat.TProtoS
	n := vrt.Choice("prior.len", 3)
	tgt.S = make([]string, n, n+vrt.Choice("prior.spare", 2))
	for i := range tgt.S {
		tgt.S[i] = vrt.String(idx("prior", i), 1)
	}
	before := append([]string{}, tgt.S...)
	vrt.Assert("unmarshal ok", p.Unmarshal(data, &tgt) == nil)
	vrt.Assert("appended", len(tgt.S) == n+len(src.V.S))
	if len(tgt.S) == n+len(src.V.S) {
		for i := 0; i < n; i++ {
			vrt.Assert("existing elements kept", tgt.S[i] == before[i])
		}
		for i := range src.V.S {
			vrt.Assert("new elements appended in order", tgt.S[n+i] == src.V.S[i])
		}
	}
}

// H10m_Map: map entries are merged by key.
func H10m_Map() {
	setBounds()
	p := newPlenc(cfgDef)
	var src V_TMapSI
	src.Fill("src")
	data, err := p.Marshal(nil, &src.V)
	vrt.Assert("marshal ok", err == nil)
	var tgt cat.TMapSI
	pk := vrt.String("prior.k", vrt.Choice("prior.k.len", 2))
	pv := vrt.Int("prior.v")
	hasPrior := vrt.Choice("prior.present", 2) == 1
	if hasPrior {
		tgt.M = map[string]int{pk: pv}
	}
	tgt.Z = vrt.Int("prior.Z")
	z0 := tgt.Z
	vrt.Assert("unmarshal ok", p.Unmarshal(data, &tgt) == nil)
	vrt.Assert("scalar field", tgt.Z == vrt.IteInt(src.V.Z != 0, src.V.Z, z0))
	for i, k := range src.Sh.M.K {
		v, ok := tgt.M[k]
		vrt.Assert("entry from the data present", ok)
		vrt.Assert("entry from the data has its value", vrt.Implies(ok, v == src.Sh.M.V[i]))
	}
	if hasPrior {
		inSrc := false
		for _, k := range src.Sh.M.K {
			inSrc = vrt.Or(inSrc, k == pk)
		}
		v, ok := tgt.M[pk]
		vrt.Assert("prior entry still present", ok)
		vrt.Assert("prior entry keeps its value unless overwritten", vrt.Implies(vrt.And(ok, !inSrc), v == pv))
	}
}

// H10m_ProtoAppendStruct: repeated-field form appended into a re-used slice of
// structs whose spare capacity holds old elements: the appended elements must
// not inherit their omitted fields from them.
func H10m_ProtoAppendStruct() {
	setBounds()
	p := newPlenc(cfgDef)
	var src V_TProtoT
	src.Fill("src")
	data, err := p.Marshal(nil, &src.V)
	vrt.Assert("marshal ok", err == nil)
	var tgt cat.TProtoT
	n := vrt.Choice("prior.len", 2)
	tgt.T = dirtyIns("prior", n, 1+vrt.Choice("prior.spare", 2))
	before := append([]cat.TIn{}, tgt.T...)
	vrt.Assert("unmarshal ok", p.Unmarshal(data, &tgt) == nil)
	vrt.Assert("appended", len(tgt.T) == n+len(src.V.T))
	if len(tgt.T) == n+len(src.V.T) {
		for i := 0; i < n; i++ {
			vrt.Assert("existing elements kept", eqIn(&before[i], &tgt.T[i]))
		}
		for i := range src.V.T {
			vrt.Assert("appended element equals the encoded one (no stale fields)", eqIn(&src.V.T[i], &tgt.T[n+i]))
		}
	}
}

// H10h_AfterError: a decode that fails half-way must not poison later decodes
// on the same instance (pooled scratch state).
func H10h_AfterError() {
	setBounds()
	p := newPlenc(cfgDef)
	var y V_TMapK
	FillSmall = true
	y.Fill("first")
	FillSmall = false
	d1, err := p.Marshal(nil, &y.V)
	vrt.Assert("marshal first ok", err == nil)
	// corrupt the first encoding: cut it short, or overwrite its last byte
	if len(d1) > 0 {
		switch vrt.Choice("corrupt", 3) {
		case 0:
			d1 = d1[:len(d1)-1]
		case 1:
			d1[len(d1)-1] = vrt.U8("junk")
		case 2:
			d1 = append(d1[:len(d1)-1:len(d1)-1], 0xff, 0xff)
		}
	}
	var o1 cat.TMapK
	_ = p.Unmarshal(d1, &o1) // may fail: that is the point
	var x V_TMapK
	FillSmall = !vrt.Thorough()
	x.Fill("second")
	FillSmall = false
	d2, err := p.Marshal(nil, &x.V)
	vrt.Assert("marshal second ok", err == nil)
	var o2 cat.TMapK
	vrt.Assert("unmarshal second ok", p.Unmarshal(d2, &o2) == nil)
	vrt.Assert("decode after a failed decode is unaffected by it", x.Eq(&o2, false))
}

// H10m_PtrSlice: a slice of struct pointers decoded into a target whose
// backing array (with old pointers) is re-used: elements must equal the
// encoded ones and the caller's old pointees must not be written through.
func H10m_PtrSlice() {
	setBounds()
	B.Slice = 2
	p := newPlenc(cfgDef)
	var src V_TCountedP
	FillSmall = !vrt.Thorough()
	src.Fill("src")
	FillSmall = false
	data, err := p.Marshal(nil, &src.V)
	vrt.Assert("marshal ok", err == nil)
	old := &cat.TIn{X: vrt.Int("old.X"), Y: vrt.String("old.Y", 1)}
	keepX, keepY := old.X, old.Y
	var tgt cat.TCountedP
	tgt.A = make([]*cat.TIn, vrt.Choice("prior.len", 3), 3)
	for i := range tgt.A {
		tgt.A[i] = old
	}
	spare := tgt.A[:3]
	spare[2] = old
	vrt.Assert("unmarshal ok", p.Unmarshal(data, &tgt) == nil)
	if len(src.V.A) != 0 {
		vrt.Assert("exactly the encoded elements", len(tgt.A) == len(src.V.A))
		if len(tgt.A) == len(src.V.A) {
			for i := range tgt.A {
				if tgt.A[i] == nil {
					vrt.Assert("element present", false)
					continue
				}
				var want cat.TIn
				if src.V.A[i] != nil {
					want = *src.V.A[i]
				}
				vrt.Assert("element equals the encoded one (no stale fields)", eqIn(&want, tgt.A[i]))
			}
		}
		vrt.Assert("the caller's old pointee is not written through", vrt.And(old.X == keepX, old.Y == keepY))
	}
}
