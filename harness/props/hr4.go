package props

// Harnesses added after the fourth seeded-change campaign. Each one widens a
// bound or adds a history / configuration that an independent change showed
// to matter (see DESIGN.md §9).

import (
	"math"
	"reflect"
	"strconv"
	"unsafe"

	"github.com/philpearl/plenc"
	"github.com/philpearl/plenc/plenccodec"
	"github.com/philpearl/plenc/plenccore"
	"github.com/unravelin/null"
	"vharness/cat"
	"vharness/vrt"
)

// descScribble overwrites every node below d in place (the Elements backing
// arrays are what a memoising codec would share between callers).
func descScribble(d *plenccodec.Descriptor) {
	for i := range d.Elements {
		descScribble(&d.Elements[i])
		e := &d.Elements[i]
		e.Index = -7
		e.Name = "scribbled"
		e.Type = plenccodec.FieldTypeJSONArray
		e.TypeName = "scribbled"
		e.ExplicitPresence = !e.ExplicitPresence
		e.LogicalType = plenccodec.LogicalTypeMapEntry
		e.Elements = nil
	}
}

// ---------------------------------------------------------------- C18 / C03

// skipWide: Skip over a buffer that is large enough for every length a 1-,
// 2- or 3-byte length prefix can declare to fit or not to fit: the length is
// a solver symbol over its whole range (0 .. 2^21-1), the buffer behind it is
// concrete. Decides the end-offset arithmetic of the length-delimited and the
// counted wire types for every declared length, not only those that fit in a
// handful of input bytes.
func skipWide(total int) {
	wt := 2 + vrt.Choice("wt", 2)
	data := make([]byte, total)
	pre := vrt.Bytes("d", 4)
	copy(data, pre)
	if wt == 3 {
		// one entry; its length is the symbol (a second entry would start at a
		// symbolic offset, which the engine would have to enumerate)
		vrt.Assume(data[0] == 1)
	}
	vrt.LoopBound(16)
	got, err := plenccore.Skip(data, plenccore.WireType(wt))
	rn, ok := refSkip(data, wt)
	vrt.Observe("got", uint64(int64(got)))
	vrt.Assert("malformed or truncated => error", vrt.Implies(!ok, err != nil))
	vrt.Assert("nil error => within input", vrt.Implies(err == nil, vrt.And(got > 0, got <= len(data))))
	vrt.Assert("well-formed => exact length", vrt.Implies(ok, vrt.And(err == nil, got == rn)))
}

// H18_SkipWide: a buffer past the whole 3-byte prefix range (2^21 + 64
// bytes): every length a 1..3-byte prefix can declare fits, and lengths from
// a 4-byte prefix do not.
func H18_SkipWide() { skipWide(1<<21 + 64) }

var removedLens = []int{127, 128, 129, 255, 256, 257, 300, 383, 384, 511, 512, 640, 16383, 16384, 32767, 32768, 40000, 49152, 65536, 70000}

// H03b_LongRemoved: the removed field (a string, an element of a counted
// slice, a nested struct) is long enough for its length prefix to take two or
// three bytes, on both sides of every bit of the first prefix byte.
func H03b_LongRemoved() {
	p := newPlenc(cfgDef)
	L := removedLens[vrt.Choice("len", len(removedLens))]
	a := smallSym("A")
	b := vrt.String("B", 1)
	long := make([]byte, L)
	long[0], long[L-1] = vrt.U8("x0"), vrt.U8("xN")
	var d []byte
	var err error
	switch vrt.Choice("shape", 3) {
	case 0:
		v := cat.KxStr{A: a, X: string(long), B: b}
		d, err = p.Marshal(nil, &v)
	case 1:
		v := cat.KxCounted{A: a, X: []string{"k", string(long), ""}, B: b}
		d, err = p.Marshal(nil, &v)
	default:
		v := cat.KxStruct{A: a, X: cat.TIn{X: 1, Y: string(long)}, B: b}
		d, err = p.Marshal(nil, &v)
	}
	vrt.Assert("marshal ok", err == nil)
	evolveCheck(p, d, a, b)
}

// H03_HighIdx: writer and reader both use indexes of 64 and above; the
// reader dropped some in the middle of that range and below its own highest.
func H03_HighIdx() {
	setBounds()
	FillSmall = true // one-byte integers: the subject is the index lookup, not the varint widths
	p := newPlenc(cfgDef)
	var x V_KxHigh
	x.Fill("s")
	FillSmall = false
	d, err := p.Marshal(nil, &x.V)
	vrt.Assert("marshal ok", err == nil)
	var prior cat.KxHighPrime
	prior.A, prior.B, prior.C, prior.D = vrt.Int("prior.A"), vrt.Int("prior.B"), vrt.String("prior.C", 1), vrt.Int("prior.D")
	before := prior
	err = p.Unmarshal(d, &prior)
	vrt.Assert("decodes without error", err == nil)
	vrt.Assert("shared field 1", prior.A == vrt.IteInt(x.V.A != 0, x.V.A, before.A))
	vrt.Assert("shared field 102", prior.B == vrt.IteInt(x.V.B != 0, x.V.B, before.B))
	if len(x.V.C) != 0 {
		vrt.Assert("shared field 103", prior.C == x.V.C)
	} else {
		vrt.Assert("absent field 103 keeps prior value", prior.C == before.C)
	}
	vrt.Assert("reader-only field 200 untouched", prior.D == before.D)
}

// ---------------------------------------------------------------------- C04

// hostileLongPrefix: a tag byte followed by a 9- or 10-byte varint (a length,
// count or value of 2^56 and above, where signed offset arithmetic wraps) and
// up to two more bytes. All symbolic.
func hostileLongPrefix() []byte {
	pl := 9 + vrt.Choice("prefix", 2)
	rest := vrt.Choice("rest", 3)
	data := vrt.BytesTail("d", 1+pl+rest, 4)
	for i := 1; i < pl; i++ {
		vrt.Assume(data[i] >= 0x80)
	}
	vrt.Assume(data[pl] < 0x80)
	vrt.LoopBound(len(data) + 16)
	vrt.AllocBudget(int64(4096 * (len(data) + 1)))
	return data
}

func longPrefixTotal(fresh func() interface{}, describe bool) {
	p := newPlenc(cfgDef)
	c, err := p.CodecForType(reflect.TypeOf(fresh()).Elem())
	if err != nil {
		vrt.Assert("codec built", false)
		return
	}
	data := hostileLongPrefix()
	if describe {
		d := c.Descriptor()
		vrt.Measure(func() { _ = d.Read(nopOut{}, data) })
	} else {
		out := fresh()
		vrt.Measure(func() { _ = p.Unmarshal(data, out) })
	}
	vrt.Cover("returned")
}

func H04l_LongPrefix_TIn() { longPrefixTotal(func() interface{} { return new(cat.TIn) }, false) }
func H04l_LongPrefix_TCounted() {
	longPrefixTotal(func() interface{} { return new(cat.TCounted) }, false)
}
func H04l_LongPrefix_TMapSI() { longPrefixTotal(func() interface{} { return new(cat.TMapSI) }, false) }
func H04l_LongPrefix_TTime()  { longPrefixTotal(func() interface{} { return new(cat.TTime) }, false) }
func H04l_LongPrefix_TPacked() {
	longPrefixTotal(func() interface{} { return new(cat.TPacked) }, false)
}
func H04l_LongPrefix_TopIns() { longPrefixTotal(func() interface{} { return new(cat.TopIns) }, false) }
func H04l_LongPrefixD_TIn()   { longPrefixTotal(func() interface{} { return new(cat.TIn) }, true) }
func H04l_LongPrefixD_TCounted() {
	longPrefixTotal(func() interface{} { return new(cat.TCounted) }, true)
}
func H04l_LongPrefixD_TMapSI() { longPrefixTotal(func() interface{} { return new(cat.TMapSI) }, true) }
func H04l_LongPrefixD_TTime()  { longPrefixTotal(func() interface{} { return new(cat.TTime) }, true) }

// ---------------------------------------------------------------------- C05

// Registered codecs whose wire width differs from the Go size of the type
// they serve: a 16-byte struct written as 8 fixed bytes, an 8-byte struct
// written as 4 fixed bytes, a 16-byte struct written as one varint.
type fix64 struct {
	V     uint64
	Valid bool
}
type fix32 struct {
	V     uint32
	Valid bool
}
type wideVar struct {
	Pad uint64
	V   uint64
}

type fix64Codec struct{}

func (fix64Codec) Omit(ptr unsafe.Pointer) bool { return false }
func (fix64Codec) Read(data []byte, ptr unsafe.Pointer, wt plenccore.WireType) (int, error) {
	if len(data) < 8 {
		return 0, errBad
	}
	var v uint64
	for i := 0; i < 8; i++ {
		v |= uint64(data[i]) << (8 * uint(i))
	}
	*(*fix64)(ptr) = fix64{V: v, Valid: true}
	return 8, nil
}
func (fix64Codec) New() unsafe.Pointer          { return unsafe.Pointer(new(fix64)) }
func (fix64Codec) WireType() plenccore.WireType { return plenccore.WT64 }
func (fix64Codec) Descriptor() plenccodec.Descriptor {
	return plenccodec.Descriptor{Type: plenccodec.FieldTypeFloat64}
}
func (fix64Codec) Size(ptr unsafe.Pointer, tag []byte) int { return len(tag) + 8 }
func (fix64Codec) Append(data []byte, ptr unsafe.Pointer, tag []byte) []byte {
	data = append(data, tag...)
	return refLE64(data, (*fix64)(ptr).V)
}

type fix32Codec struct{}

func (fix32Codec) Omit(ptr unsafe.Pointer) bool { return false }
func (fix32Codec) Read(data []byte, ptr unsafe.Pointer, wt plenccore.WireType) (int, error) {
	if len(data) < 4 {
		return 0, errBad
	}
	var v uint32
	for i := 0; i < 4; i++ {
		v |= uint32(data[i]) << (8 * uint(i))
	}
	*(*fix32)(ptr) = fix32{V: v, Valid: true}
	return 4, nil
}
func (fix32Codec) New() unsafe.Pointer          { return unsafe.Pointer(new(fix32)) }
func (fix32Codec) WireType() plenccore.WireType { return plenccore.WT32 }
func (fix32Codec) Descriptor() plenccodec.Descriptor {
	return plenccodec.Descriptor{Type: plenccodec.FieldTypeFloat32}
}
func (fix32Codec) Size(ptr unsafe.Pointer, tag []byte) int { return len(tag) + 4 }
func (fix32Codec) Append(data []byte, ptr unsafe.Pointer, tag []byte) []byte {
	data = append(data, tag...)
	return refLE32(data, (*fix32)(ptr).V)
}

type wideVarCodec struct{}

func (wideVarCodec) Omit(ptr unsafe.Pointer) bool { return false }
func (wideVarCodec) Read(data []byte, ptr unsafe.Pointer, wt plenccore.WireType) (int, error) {
	u, n := plenccore.ReadVarUint(data)
	if n <= 0 {
		return 0, errBad
	}
	*(*wideVar)(ptr) = wideVar{V: u}
	return n, nil
}
func (wideVarCodec) New() unsafe.Pointer          { return unsafe.Pointer(new(wideVar)) }
func (wideVarCodec) WireType() plenccore.WireType { return plenccore.WTVarInt }
func (wideVarCodec) Descriptor() plenccodec.Descriptor {
	return plenccodec.Descriptor{Type: plenccodec.FieldTypeUint}
}
func (wideVarCodec) Size(ptr unsafe.Pointer, tag []byte) int {
	return len(tag) + plenccore.SizeVarUint((*wideVar)(ptr).V)
}
func (wideVarCodec) Append(data []byte, ptr unsafe.Pointer, tag []byte) []byte {
	data = append(data, tag...)
	return plenccore.AppendVarUint(data, (*wideVar)(ptr).V)
}

type customSlices struct {
	A []fix64   `plenc:"1"`
	B []fix32   `plenc:"2"`
	C []wideVar `plenc:"3"`
	Z int       `plenc:"4"`
}

func customInstance() *plenc.Plenc {
	p := new(plenc.Plenc)
	p.RegisterDefaultCodecs()
	p.RegisterCodec(reflect.TypeOf(fix64{}), fix64Codec{})
	p.RegisterCodec(reflect.TypeOf(fix32{}), fix32Codec{})
	p.RegisterCodec(reflect.TypeOf(wideVar{}), wideVarCodec{})
	return p
}

// H05c_CustomSlices: the slice wrappers plenc builds around registered
// element codecs obey the codec laws when the element's wire width is not its
// Go size; the enclosing struct is walkable to its end and round-trips.
func H05c_CustomSlices() {
	p := customInstance()
	// one of the three slices is populated at a time (sum, not product, of the shapes)
	var na, nb, nc int
	switch vrt.Choice("which", 3) {
	case 0:
		na = vrt.Choice("na", 4)
	case 1:
		nb = vrt.Choice("nb", 4)
	default:
		nc = vrt.Choice("nc", 3)
	}
	var in customSlices
	for i := 0; i < na; i++ {
		in.A = append(in.A, fix64{V: vrt.U64(idx("a", i)), Valid: true})
	}
	for i := 0; i < nb; i++ {
		in.B = append(in.B, fix32{V: vrt.U32(idx("b", i)), Valid: true})
	}
	for i := 0; i < nc; i++ {
		v := vrt.U64(idx("c", i))
		vrt.Assume(v < 1<<14)
		in.C = append(in.C, wideVar{V: v})
	}
	in.Z = smallSym("Z")
	for _, f := range []struct {
		v   interface{}
		ptr unsafe.Pointer
	}{{in.A, unsafe.Pointer(&in.A)}, {in.B, unsafe.Pointer(&in.B)}, {in.C, unsafe.Pointer(&in.C)}} {
		c, err := p.CodecForType(reflect.TypeOf(f.v))
		vrt.Assert("slice codec ok", err == nil)
		if err == nil {
			codecLaws(c, f.ptr, false, true)
		}
	}
	data, err := p.Marshal(nil, &in)
	vrt.Assert("marshal ok", err == nil)
	// documented encoding: packed bodies of fixed / varint elements
	var exp []byte
	if na > 0 {
		var body []byte
		for _, e := range in.A {
			body = refLE64(body, e.V)
		}
		exp = refLenField(exp, 1, body)
	}
	if nb > 0 {
		var body []byte
		for _, e := range in.B {
			body = refLE32(body, e.V)
		}
		exp = refLenField(exp, 2, body)
	}
	if nc > 0 {
		var body []byte
		for _, e := range in.C {
			body = refVarint(body, e.V)
		}
		exp = refLenField(exp, 3, body)
	}
	exp = refVarint(refTag(exp, 0, 4), refZigZag(int64(in.Z)))
	vrt.Assert("bytes == documented encoding", vrt.BytesEq(data, exp))
	var out customSlices
	vrt.Assert("unmarshal ok", p.Unmarshal(data, &out) == nil)
	ok := len(out.A) == na && len(out.B) == nb && len(out.C) == nc
	vrt.Assert("element counts", ok)
	if ok {
		eq := out.Z == in.Z
		for i := range in.A {
			eq = vrt.And(eq, vrt.And(out.A[i].V == in.A[i].V, out.A[i].Valid))
		}
		for i := range in.B {
			eq = vrt.And(eq, vrt.And(out.B[i].V == in.B[i].V, out.B[i].Valid))
		}
		for i := range in.C {
			eq = vrt.And(eq, vrt.And(out.C[i].V == in.C[i].V, out.C[i].Pad == 0))
		}
		vrt.Assert("round trip", eq)
	}
}

// ---------------------------------------------------------------------- C06

type capInner struct {
	S string `plenc:"1"`
	N int    `plenc:"2"`
}
type capOuter struct {
	A  int      `plenc:"1"`
	In capInner `plenc:"2"`
	Z  int      `plenc:"3"`
}

// H06b_CapSweep: a value whose nested struct body needs a two-byte length
// prefix, appended to buffers whose spare capacity runs through every value
// from nothing to more than the whole encoding: wherever the reallocation
// falls, the result is the prefix followed by Marshal(nil, v).
func H06b_CapSweep() {
	p := newPlenc(cfgDef)
	var in capOuter
	in.A, in.Z, in.In.N = smallSym("A"), smallSym("Z"), smallSym("N")
	n := 126 + vrt.Choice("slen", 4) // body = 1+1/2+n+2: 130..134 => around the 1/2-byte prefix edge too
	s := make([]byte, n)
	s[0], s[n-1] = vrt.U8("s0"), vrt.U8("sN")
	in.In.S = string(s)
	base, err := p.Marshal(nil, &in)
	vrt.Assert("marshal ok", err == nil)
	spare := vrt.Choice("spare", len(base)+4)
	pl := vrt.Choice("prefixlen", 2)
	buf := make([]byte, pl, pl+spare)
	for i := range buf {
		buf[i] = 0xEE
	}
	out, err := p.Marshal(buf, &in)
	vrt.Assert("marshal into the buffer ok", err == nil)
	vrt.Assert("length = prefix + encoding", len(out) == pl+len(base))
	if len(out) == pl+len(base) {
		vrt.Assert("prefix preserved", vrt.BytesEq(out[:pl], buf[:pl]))
		vrt.Assert("appended bytes == Marshal(nil, v)", vrt.BytesEq(out[pl:], base))
	}
}

// H06p_PlanOrder: a pointer-shaped struct (single pointer / map field) is
// marshalled by value and through a pointer on the same instance, in both
// orders, repeatedly: every call gives the same bytes.
func H06p_PlanOrder() {
	p := newPlenc(cfgDef)
	n := vrt.Int("n")
	v := cat.TWrap{In: cat.TWrapIn{P: &n}}
	type onlyMap struct {
		M map[string]int `plenc:"1"`
	}
	m := onlyMap{M: map[string]int{"k": n}}
	var a, b, c, d []byte
	var e1, e2, e3, e4 error
	if vrt.Choice("order", 2) == 0 {
		a, e1 = p.Marshal(nil, v)
		b, e2 = p.Marshal(nil, &v)
		c, e3 = p.Marshal(nil, m)
		d, e4 = p.Marshal(nil, &m)
	} else {
		b, e2 = p.Marshal(nil, &v)
		a, e1 = p.Marshal(nil, v)
		d, e4 = p.Marshal(nil, &m)
		c, e3 = p.Marshal(nil, m)
	}
	vrt.Assert("all marshal calls ok", e1 == nil && e2 == nil && e3 == nil && e4 == nil)
	vrt.Assert("by value == by pointer (pointer field)", vrt.BytesEq(a, b))
	vrt.Assert("by value == by pointer (map field)", vrt.BytesEq(c, d))
	a2, _ := p.Marshal(nil, v)
	b2, _ := p.Marshal(nil, &v)
	vrt.Assert("repeatable", vrt.And(vrt.BytesEq(a, a2), vrt.BytesEq(b, b2)))
	exp := refLenField(nil, 1, refVarint(refTag(nil, 0, 1), refZigZag(int64(n))))
	vrt.Assert("documented encoding", vrt.BytesEq(a, exp))
}

// ---------------------------------------------------------------------- C08

type badUnsafe struct {
	A unsafe.Pointer `plenc:"1"`
}
type badUnsafeElem struct {
	A []unsafe.Pointer `plenc:"1"`
}
type badUnsafeVal struct {
	A map[string]unsafe.Pointer `plenc:"1"`
}
type badUintptrElem struct {
	A []uintptr `plenc:"1"`
}
type badC128 struct {
	A complex128 `plenc:"1"`
}
type myUnsafe unsafe.Pointer
type badNamedUnsafe struct {
	A myUnsafe `plenc:"1"`
}

// H08u_Kinds2: the kinds at the far end of reflect's kind numbering, in
// field / element / map-value / named positions.
func H08u_Kinds2() {
	p := new(plenc.Plenc)
	p.RegisterDefaultCodecs()
	switch vrt.Choice("type", 6) {
	case 0:
		mustReject(p, badUnsafe{})
	case 1:
		mustReject(p, badUnsafeElem{})
	case 2:
		mustReject(p, badUnsafeVal{})
	case 3:
		mustReject(p, badUintptrElem{})
	case 4:
		mustReject(p, badC128{})
	case 5:
		mustReject(p, badNamedUnsafe{})
	}
}

type hidden struct {
	N int `plenc:"1"`
}

type embTagged struct {
	hidden `plenc:"1"`
	B      int `plenc:"2"`
}

type embUntagged struct {
	hidden
	B int `plenc:"2"`
}

type embPtr struct {
	*hidden
	B int `plenc:"2"`
}

// H08u_EmbeddedUnexported: an embedded field of an unexported type is an
// unexported field: never encoded, never written, and no tag is demanded.
func H08u_EmbeddedUnexported() {
	p := new(plenc.Plenc)
	p.RegisterDefaultCodecs()
	n, b, pn := vrt.Int("n"), smallSym("b"), vrt.Int("prior.n")
	exp := refVarint(refTag(nil, 0, 2), refZigZag(int64(b)))
	switch vrt.Choice("shape", 3) {
	case 0:
		in := embTagged{hidden: hidden{N: n}, B: b}
		data, err := p.Marshal(nil, &in)
		vrt.Assert("marshal ok", err == nil)
		vrt.Assert("embedded unexported type is not in the encoding", vrt.BytesEq(data, exp))
		out := embTagged{hidden: hidden{N: pn}}
		// data that does carry a field 1: it must not reach the unexported field
		full := refLenField(nil, 1, refVarint(refTag(nil, 0, 1), refZigZag(int64(n))))
		full = append(full, exp...)
		vrt.Assert("unmarshal ok", p.Unmarshal(full, &out) == nil)
		vrt.Assert("embedded unexported type is never written", vrt.And(out.hidden.N == pn, out.B == b))
	case 1:
		in := embUntagged{hidden: hidden{N: n}, B: b}
		data, err := p.Marshal(nil, &in)
		vrt.Assert("marshal ok (no tag demanded)", err == nil)
		vrt.Assert("embedded unexported type is not in the encoding", vrt.BytesEq(data, exp))
	default:
		in := embPtr{hidden: &hidden{N: n}, B: b}
		data, err := p.Marshal(nil, &in)
		vrt.Assert("marshal ok (no tag demanded)", err == nil)
		vrt.Assert("embedded unexported pointer is not in the encoding", vrt.BytesEq(data, exp))
	}
}

// ---------------------------------------------------------------------- C09

// H09r_ReusedMap: absent stays absent also when the target map already holds
// a present value under the same key; present zero stays present.
func H09r_ReusedMap() {
	p := newPlenc(cfgDef)
	k := vrt.Int("k")
	old := vrt.String("old", 1)
	switch vrt.Choice("shape", 3) {
	case 0:
		src := cat.TMapP{M: map[int]*string{k: nil}}
		data, err := p.Marshal(nil, &src)
		vrt.Assert("marshal ok", err == nil)
		dst := cat.TMapP{M: map[int]*string{k: &old}}
		vrt.Assert("unmarshal ok", p.Unmarshal(data, &dst) == nil)
		v, ok := dst.M[k]
		vrt.Assert("nil entry reads back nil over a present one", ok && v == nil)
	case 1:
		n := 7
		src := cat.TMapPS{M: map[string]*int{old: nil}}
		data, err := p.Marshal(nil, &src)
		vrt.Assert("marshal ok", err == nil)
		dst := cat.TMapPS{M: map[string]*int{old: &n}}
		vrt.Assert("unmarshal ok", p.Unmarshal(data, &dst) == nil)
		v, ok := dst.M[old]
		vrt.Assert("nil entry reads back nil over a present one", ok && v == nil)
	default:
		empty := ""
		src := cat.TMapP{M: map[int]*string{k: &empty}}
		data, err := p.Marshal(nil, &src)
		vrt.Assert("marshal ok", err == nil)
		dst := cat.TMapP{M: map[int]*string{k: &old}}
		vrt.Assert("unmarshal ok", p.Unmarshal(data, &dst) == nil)
		v, ok := dst.M[k]
		vrt.Assert("present empty value reads back present and empty", ok && v != nil && *v == "")
	}
}

type nullMap struct {
	M map[string]null.Int `plenc:"1"`
}

// H09r_ReusedNull: an invalid null value as the value of a re-used map entry
// (the entry carries no value field at all).
func H09r_ReusedNull() {
	p := newPlenc(cfgDef)
	var src nullMap
	src.M = map[string]null.Int{"k": {}}
	data, err := p.Marshal(nil, &src)
	vrt.Assert("marshal ok", err == nil)
	var old null.Int
	old.Valid, old.Int64 = true, vrt.I64("old")
	dst := nullMap{M: map[string]null.Int{"k": old}}
	vrt.Assert("unmarshal ok", p.Unmarshal(data, &dst) == nil)
	v, ok := dst.M["k"]
	vrt.Assert("invalid stays invalid over a valid prior entry", ok && !v.Valid)
}

// ---------------------------------------------------------------------- C12

type repIn struct {
	X int    `plenc:"1"`
	Y string `plenc:"2"`
}
type repOuter struct {
	T []repIn  `plenc:"1"`
	U []*repIn `plenc:"2"`
	S []string `plenc:"3"`
}

// H12r_ReusedTarget: the repeated-field form decodes to the same value in
// proto mode and in default mode also when the target slices are being
// re-used (spare capacity holding old elements): elements are appended and
// nothing of the old slots shows through.
func H12r_ReusedTarget() {
	pp := newPlenc(cfgArr)
	var rd *plenc.Plenc
	if vrt.Choice("reader", 2) == 0 {
		rd = pp
	} else {
		rd = newPlenc(cfgDef)
	}
	var src repOuter
	src.T = []repIn{{X: vrt.Int("t0.X")}, {Y: vrt.String("t1.Y", 1)}}
	src.U = []*repIn{{Y: vrt.String("u0.Y", 1)}}
	src.S = []string{vrt.String("s0", 1)}
	data, err := pp.Marshal(nil, &src)
	vrt.Assert("marshal ok", err == nil)
	oldX, oldY := vrt.Int("old.X"), vrt.String("old.Y", 1)
	stale := &repIn{X: oldX, Y: oldY}
	var dst repOuter
	dst.T = make([]repIn, 3, 4)
	dst.U = make([]*repIn, 2, 4)
	dst.S = make([]string, 2, 4)
	for i := range dst.T {
		dst.T[i] = repIn{X: oldX, Y: oldY}
	}
	dst.U[0], dst.U[1] = stale, stale
	dst.S[0], dst.S[1] = oldY, oldY
	keep := vrt.Choice("keep", 2) // 0: truncate to zero length, 1: keep one live element
	dst.T, dst.U, dst.S = dst.T[:keep], dst.U[:keep], dst.S[:keep]
	vrt.Assert("unmarshal ok", rd.Unmarshal(data, &dst) == nil)
	ok := len(dst.T) == keep+2 && len(dst.U) == keep+1 && len(dst.S) == keep+1
	vrt.Assert("elements appended to the live ones", ok)
	if ok {
		t0, t1 := dst.T[keep], dst.T[keep+1]
		vrt.Assert("appended struct elements equal the encoded ones (no stale fields)",
			vrt.And(vrt.And(t0.X == src.T[0].X, t0.Y == ""), vrt.And(t1.X == 0, t1.Y == src.T[1].Y)))
		u0 := dst.U[keep]
		vrt.Assert("appended pointer element equals the encoded one", u0 != nil && vrt.And(u0.X == 0, u0.Y == src.U[0].Y))
		vrt.Assert("appended string equals the encoded one", dst.S[keep] == src.S[0])
		vrt.Assert("old pointee not written through", vrt.And(stale.X == oldX, stale.Y == oldY))
		if keep == 1 {
			vrt.Assert("live elements kept", vrt.And(vrt.And(dst.T[0].X == oldX, dst.T[0].Y == oldY), vrt.And(dst.U[0] == stale, dst.S[0] == oldY)))
		}
	}
}

// ---------------------------------------------------------------------- C17

type sNamedFallback struct {
	A MyPlain   `plenc:"1"`
	B *MyPlain  `plenc:"2"`
	C []MyPlain `plenc:"3"`
}

// H17_NamedFallback: a named type without its own registration falls back to
// the codec *this instance* has for its underlying kind - not to the package
// default's - in value, field, pointer and element positions; an instance
// that never registered a codec for the kind rejects the named type.
func H17_NamedFallback() {
	n := vrt.Int("n")
	vrt.Assume(n != 0)
	p := plainInstance()
	p.RegisterCodec(reflect.TypeOf(int(0)), markCodecU{})
	mk := refMark(nil, uint32(n))
	v := MyPlain(n)
	vrt.Assert("value: the instance's codec for the kind", vrt.BytesEq(mustMarshal(p, &v), mk))
	s := sNamedFallback{A: v, B: &v, C: []MyPlain{v}}
	exp := append(refTag(nil, 0, 1), mk...)
	exp = append(refTag(exp, 0, 2), mk...)
	exp = refLenField(exp, 3, mk)
	vrt.Assert("field, pointer target, element: the instance's codec for the kind", vrt.BytesEq(mustMarshal(p, &s), exp))
	// the default and other instances are unaffected
	d, err := plenc.Marshal(nil, &v)
	vrt.Assert("package marshal ok", err == nil)
	vrt.Assert("package default still uses its own int codec", vrt.BytesEq(d, refVarint(nil, refZigZag(int64(n)))))
	// an instance with no codec for strings at all must not borrow the default's
	bare := new(plenc.Plenc)
	bare.RegisterCodec(reflect.TypeOf(int(0)), markCodecU{})
	vrt.Assert("bare instance: named int uses its int codec", vrt.BytesEq(mustMarshal(bare, &v), mk))
	type namedStr string
	ns := namedStr("x")
	_, err = bare.Marshal(nil, &ns)
	vrt.Assert("bare instance: no codec for the kind => error, not the default's codec", err != nil)
}

type sScoreFlat struct {
	A Score  `plenc:"1,flat"`
	P *Score `plenc:"2,flat"`
}
type sScorePlain struct {
	A Score  `plenc:"1"`
	P *Score `plenc:"2"`
}

// H17_TagHistory: the codec chosen for a (type, tag option) pair does not
// depend on which structs were built earlier on the same instance.
func H17_TagHistory() {
	a := Score(vrt.Int("a"))
	vrt.Assume(a != 0)
	p := plainInstance()
	fl := sScoreFlat{A: a, P: &a}
	pl := sScorePlain{A: a, P: &a}
	expF := refVarint(refTag(refVarint(refTag(nil, 0, 1), uint64(a)), 0, 2), uint64(a))
	zz := refZigZag(int64(a))
	expP := refVarint(refTag(refVarint(refTag(nil, 0, 1), zz), 0, 2), zz)
	var dF, dP, dV []byte
	switch vrt.Choice("order", 3) {
	case 0:
		dF = mustMarshal(p, &fl)
		dP = mustMarshal(p, &pl)
		dV = mustMarshal(p, &a)
	case 1:
		dP = mustMarshal(p, &pl)
		dF = mustMarshal(p, &fl)
		dV = mustMarshal(p, &a)
	default:
		dV = mustMarshal(p, &a)
		dF = mustMarshal(p, &fl)
		dP = mustMarshal(p, &pl)
	}
	vrt.Assert("flat-tagged fields are plain varints whatever was built before", vrt.BytesEq(dF, expF))
	vrt.Assert("untagged fields are zig-zag varints whatever was built before", vrt.BytesEq(dP, expP))
	vrt.Assert("the bare value is a zig-zag varint whatever was built before", vrt.BytesEq(dV, refVarint(nil, zz)))
	c, err := p.CodecForType(reflect.TypeOf(a))
	vrt.Assert("CodecForType ok", err == nil)
	if err == nil {
		vrt.Assert("CodecForType hands out the untagged codec", vrt.BytesEq(c.Append(nil, unsafe.Pointer(&a), nil), refVarint(nil, zz)))
	}
	pa := &a
	c2, err := p.CodecForType(reflect.TypeOf(pa))
	vrt.Assert("CodecForType(*T) ok", err == nil)
	if err == nil {
		vrt.Assert("CodecForType(*T) hands out the untagged codec", vrt.BytesEq(c2.Append(nil, unsafe.Pointer(&pa), nil), refVarint(nil, zz)))
	}
}

// ---------------------------------------------------------------------- C13

type jsonRow struct {
	A float64   `plenc:"1"`
	B float32   `plenc:"2"`
	C []float64 `plenc:"3"`
	P *float64  `plenc:"4"`
	N int64     `plenc:"5"`
	U uint64    `plenc:"6"`
}

// H13j_Numbers: the whole chain - Marshal, Descriptor walk, the real JSON
// outputter - for numeric fields holding the boundary values of floatTable
// and of the integer ranges (concrete, enumerated: number formatting is std-lib code executed on constants): the text parses
// as JSON and every number parses back to exactly the field's value.
func H13j_Numbers() {
	v := floatTable[vrt.Choice("value", len(floatTable))]
	k := vrt.Choice("ints", 3)
	n := []int64{math.MinInt64, -1, math.MaxInt64}[k]
	u := []uint64{math.MaxUint64, 1, 1 << 63}[k]
	in := jsonRow{A: v, B: float32(v), C: []float64{v, -v}, P: &v, N: n, U: u}
	if math.IsInf(float64(in.B), 0) || in.B == 0 {
		in.B = 1 // out of float32's range: not the subject here (a zero would be omitted)
	}
	p := newPlenc(cfgDef)
	data, err := p.Marshal(nil, &in)
	vrt.Assert("marshal ok", err == nil)
	c, err := p.CodecForType(reflect.TypeOf(in))
	vrt.Assert("codec ok", err == nil)
	if err != nil {
		return
	}
	d := c.Descriptor()
	var out plenccodec.JSONOutput
	vrt.Assert("descriptor walk ok", d.Read(&out, data) == nil)
	js := out.Done()
	vrt.ObserveBytes("json", js)
	toks, ok := jsonParse(js)
	vrt.Assert("output is one valid JSON document", ok)
	if !ok {
		return
	}
	f64 := func(f float64) jtok { return jtok{tNumber, "f64:" + strconv.FormatUint(math.Float64bits(f), 16)} }
	f32 := func(f float32) jtok {
		return jtok{tNumber, "f32:" + strconv.FormatUint(uint64(math.Float32bits(f)), 16)}
	}
	exp := []jtok{{K: tStartObj}, {tName, "A"}, f64(v), {tName, "B"}, f32(in.B),
		{tName, "C"}, {K: tStartArr}, f64(v), f64(-v), {K: tEndArr}, {tName, "P"}, f64(v)}
	same := len(toks) == len(exp)+5
	vrt.Assert("token count", same)
	if same {
		vrt.Assert("floats parse back to the same values", sameTokens(exp, toks[:len(exp)]))
		rest := toks[len(exp):]
		okn := rest[0].K == tName && rest[0].S == "N" && rest[1].K == tNumber && rest[2].K == tName && rest[2].S == "U" && rest[3].K == tNumber && rest[4].K == tEndObj
		vrt.Assert("integer members present", okn)
		if okn {
			vrt.Assert("int64 text is the value", vrt.BytesEq([]byte(rest[1].S), strconv.AppendInt(nil, n, 10)))
			vrt.Assert("uint64 text is the value", vrt.BytesEq([]byte(rest[3].S), strconv.AppendUint(nil, u, 10)))
		}
	}
}

// ---------------------------------------------------------------------- C05

var strLawLens = []int{0, 1, 125, 126, 127, 128, 129, 16381, 16382, 16383, 16384, 16385}

type strRow struct {
	S string `plenc:"1"`
	N int    `plenc:"2"`
}
type strOuter struct {
	R strRow         `plenc:"1"`
	M map[string]int `plenc:"2"`
	Z int            `plenc:"3"`
}

// H05b_StringLaws: the codec laws for the length-delimited leaf codecs
// (string, []byte, interned string, null.String) on values whose length sits
// on each side of the 1/2/3-byte length-prefix boundaries, under a symbolic
// tag index (1- and 2-byte tags); and the same string inside a nested struct
// and as a map key, where the enclosing prefixes come from those sizes.
func H05b_StringLaws() {
	p := newPlenc(cfgDef)
	L := strLawLens[vrt.Choice("len", len(strLawLens))]
	b := make([]byte, L)
	if L > 0 {
		b[0], b[L-1] = vrt.U8("b0"), vrt.U8("bN")
	}
	s := string(b)
	switch vrt.Choice("codec", 5) {
	case 0:
		c, err := p.CodecForType(reflect.TypeOf(s))
		vrt.Assert("codec ok", err == nil)
		codecLaws(c, unsafe.Pointer(&s), false, true)
	case 1:
		c, err := p.CodecForType(reflect.TypeOf(b))
		vrt.Assert("codec ok", err == nil)
		codecLaws(c, unsafe.Pointer(&b), false, true)
	case 2:
		c, err := p.CodecForTypeWithTag(reflect.TypeOf(s), "intern")
		vrt.Assert("codec ok", err == nil)
		codecLaws(c, unsafe.Pointer(&s), false, true)
	case 3:
		ns := null.String{}
		ns.Valid, ns.String = true, s
		c, err := p.CodecForType(reflect.TypeOf(ns))
		vrt.Assert("codec ok", err == nil)
		codecLaws(c, unsafe.Pointer(&ns), false, true)
	default:
		in := strOuter{R: strRow{S: s, N: 1}, M: map[string]int{s: 2}, Z: 3}
		data, err := p.Marshal(nil, &in)
		vrt.Assert("marshal ok", err == nil)
		var row []byte
		if L > 0 {
			row = refLenField(row, 1, b)
		}
		row = refVarint(refTag(row, 0, 2), 2)
		exp := refLenField(nil, 1, row)
		var entry []byte
		if L > 0 {
			entry = refLenField(entry, 1, b)
		}
		entry = refVarint(refTag(entry, 0, 2), 4)
		exp = refVarint(refTag(exp, 3, 2), 1)
		exp = refVarint(exp, uint64(len(entry)))
		exp = append(exp, entry...)
		exp = refVarint(refTag(exp, 0, 3), 6)
		vrt.Assert("bytes == documented encoding", vrt.BytesEq(data, exp))
		var out strOuter
		vrt.Assert("unmarshal ok", p.Unmarshal(data, &out) == nil)
		vrt.Assert("round trip", vrt.And(out.R.S == s, vrt.And(out.R.N == 1, out.Z == 3)))
	}
}

// ------------------------------------------------------- C01 / C02 / C10 / C12

type countRow struct {
	L []string       `plenc:"1"`
	Q []BigIn        `plenc:"2"`
	I []int          `plenc:"3"`
	M map[int]string `plenc:"4"`
	Z int            `plenc:"5"`
}

// H01b_ManyCounted: element and entry counts on both sides of the 1/2-byte
// count varint (127, 128, 129, 300): counted slices of strings and structs, a
// packed slice whose body crosses the same boundary, a map with that many
// entries. Shapes concrete, a few contents symbolic; decoded through the
// default reader and compared element for element; the counted prefix is
// checked against the documented layout.
func H01b_ManyCounted() {
	n := []int{127, 128, 129, 300}[vrt.Choice("n", 4)]
	var in countRow
	in.Z = smallSym("Z")
	x, y := vrt.String("x", 1), smallSym("y")
	switch vrt.Choice("field", 4) {
	case 0:
		in.L = make([]string, n)
		in.L[0], in.L[n-1] = x, x
	case 1:
		in.Q = make([]BigIn, n)
		in.Q[0].N, in.Q[n-1].N = y, y
	case 2:
		in.I = make([]int, n)
		in.I[0], in.I[n-1] = y, y
	default:
		in.M = make(map[int]string, n)
		for i := 0; i < n; i++ {
			in.M[i] = ""
		}
		in.M[n-1] = x
	}
	p := newPlenc(cfgDef)
	data, err := p.Marshal(nil, &in)
	vrt.Assert("marshal ok", err == nil)
	if in.M == nil {
		var exp []byte
		if in.L != nil {
			exp = refVarint(refTag(exp, 3, 1), uint64(n))
			for _, s := range in.L {
				exp = refVarint(exp, uint64(len(s)))
				exp = append(exp, s...)
			}
		}
		if in.Q != nil {
			exp = refVarint(refTag(exp, 3, 2), uint64(n))
			for _, q := range in.Q {
				var e []byte
				if q.N != 0 {
					e = refVarint(refTag(e, 0, 2), refZigZag(int64(q.N)))
				}
				exp = refVarint(exp, uint64(len(e)))
				exp = append(exp, e...)
			}
		}
		if in.I != nil {
			var body []byte
			for _, v := range in.I {
				body = refVarint(body, refZigZag(int64(v)))
			}
			exp = refLenField(exp, 3, body)
		}
		exp = refVarint(refTag(exp, 0, 5), refZigZag(int64(in.Z)))
		vrt.Assert("bytes == documented encoding", vrt.BytesEq(data, exp))
	}
	var out countRow
	vrt.Assert("unmarshal ok", p.Unmarshal(data, &out) == nil)
	ok := len(out.L) == len(in.L) && len(out.Q) == len(in.Q) && len(out.I) == len(in.I) && len(out.M) == len(in.M)
	vrt.Assert("counts", ok)
	if ok {
		eq := out.Z == in.Z
		for i := range in.L {
			eq = vrt.And(eq, out.L[i] == in.L[i])
		}
		for i := range in.Q {
			eq = vrt.And(eq, vrt.And(out.Q[i].N == in.Q[i].N, out.Q[i].S == ""))
		}
		for i := range in.I {
			eq = vrt.And(eq, out.I[i] == in.I[i])
		}
		for k, v := range in.M {
			got, present := out.M[k]
			eq = vrt.And(eq, vrt.And(present, got == v))
		}
		vrt.Assert("round trip", eq)
	}
	// the same data into a re-used target that is larger than needed
	var again countRow
	again.L = make([]string, n+5)
	again.Q = make([]BigIn, n+5)
	again.I = make([]int, n+5)
	for i := range again.L {
		again.L[i], again.Q[i].S, again.I[i] = "old", "old", 9
	}
	vrt.Assert("unmarshal into a re-used target ok", p.Unmarshal(data, &again) == nil)
	ok = len(again.L) == len(in.L)+boolN(in.L == nil)*(n+5) && len(again.Q) == len(in.Q)+boolN(in.Q == nil)*(n+5) && len(again.I) == len(in.I)+boolN(in.I == nil)*(n+5)
	vrt.Assert("re-used target: decoded fields hold exactly the encoded elements, absent fields keep theirs", ok)
	if ok && in.Q != nil {
		vrt.Assert("re-used target: elements cleared before reuse", vrt.And(again.Q[1].S == "", again.Q[n-1].N == in.Q[n-1].N))
	}
}

func boolN(b bool) int {
	if b {
		return 1
	}
	return 0
}

func H02b_ManyCounted() { H01b_ManyCounted() }
func H10b_ManyCounted() { H01b_ManyCounted() }

// H17_SharedInstance: a Plenc instance that has already built codecs for
// other types sharing element, field and option combinations produces, for
// every type, exactly the bytes a fresh instance produces - in either build
// order.
func H17_SharedInstance() {
	n := smallSym("n")
	s := vrt.String("s", 1)
	mix := cat.TProtoMix{A: []string{s}, B: []string{s, "x"}}
	mix2 := cat.TProtoMix2{B: []string{s}, A: []string{"y", s}}
	cnt := cat.TCounted{A: []string{s}, C: []cat.TIn{{X: n, Y: s}}}
	pt := cat.TProtoT{T: []cat.TIn{{X: n}}, U: []*cat.TIn{{Y: s}}}
	nest := cat.TNested{A: cat.TIn{X: n, Y: s}, B: n}
	fl := cat.TInts{A: n, B: 7, C: 3}
	vals := []interface{}{&mix, &mix2, &cnt, &pt, &nest, &fl}
	shared := newPlenc(cfgDef)
	order := vrt.Choice("order", 3)
	got := make([][]byte, len(vals))
	for k := range vals {
		i := k
		switch order {
		case 1:
			i = len(vals) - 1 - k
		case 2:
			i = (k + 3) % len(vals)
		}
		got[i] = mustMarshal(shared, vals[i])
	}
	ok := true
	for i, v := range vals {
		fresh := mustMarshal(newPlenc(cfgDef), v)
		ok = vrt.And(ok, vrt.BytesEq(got[i], fresh))
	}
	vrt.Assert("bytes from a shared instance == bytes from a fresh instance, for every type and build order", ok)
}

// ------------------------------------------------------ known finding (C01/C09)

// ptrPtrNil: a non-nil pointer to a nil pointer. The pointer codec writes
// nothing for it (the inner nil is omitted and the outer pointer has no
// encoding of its own), so it reads back as a nil outer pointer. This is the
// subject of a committed known finding; the generated per-type harnesses do
// not draw this value, so every other violation on such types is still reported.
func ptrPtrNil() {
	p := newPlenc(cfgDef)
	var inner *int
	in := cat.TPP{P: &inner}
	data, err := p.Marshal(nil, &in)
	vrt.Assert("marshal ok", err == nil)
	var out cat.TPP
	vrt.Assert("unmarshal ok", p.Unmarshal(data, &out) == nil)
	vrt.Assert("a non-nil pointer to a nil pointer reads back as it was", out.P != nil && *out.P == nil)
}

func H01k_PtrPtrNil() { ptrPtrNil() }
func H09k_PtrPtrNil() { ptrPtrNil() }

// ---------------------------------------------------------------- round 5

type boolRow struct {
	A bool   `plenc:"1"`
	L []bool `plenc:"2"`
	Z int    `plenc:"3"`
}

// H02d_BoolWide: bools are plain varints; any non-zero varint of any width
// decodes to true (protobuf's rule, and what plenc's reader does), zero to
// false - as a field and as a packed element.
func H02d_BoolWide() {
	p := newPlenc(cfgDef)
	v, w := vrt.U64("v"), vrt.U64("w")
	data := refVarint(refTag(nil, 0, 1), v)
	data = refLenField(data, 2, refVarint(refVarint(nil, w), 1))
	data = refVarint(refTag(data, 0, 3), 2)
	var out boolRow
	vrt.Assert("unmarshal ok", p.Unmarshal(data, &out) == nil)
	vrt.Assert("field: non-zero varint is true", out.A == (v != 0))
	ok := len(out.L) == 2
	vrt.Assert("packed element count", ok)
	if ok {
		vrt.Assert("packed element: non-zero varint is true", vrt.And(out.L[0] == (w != 0), out.L[1]))
	}
	vrt.Assert("following field", out.Z == 1)
}

// nestedLong: structured hostile input. A concrete, well-formed framing
// prefix (tags, counts and lengths that cover exactly the rest of the input;
// 0xFF below stands for "number of bytes that follow") leads the decoder to a
// length, count or value at some nesting position of the target, where a
// 10-byte varint (all symbolic: 2^63 and above included) and one further
// symbolic byte stand.
type nestedLong struct {
	fresh func() interface{}
	head  []byte
}

var nestedLongCases = []nestedLong{
	// map[string]int field 1: count, entry length, key length, value
	{func() interface{} { return new(cat.TMapSI) }, []byte{0x0B}},
	{func() interface{} { return new(cat.TMapSI) }, []byte{0x0B, 0x01}},
	{func() interface{} { return new(cat.TMapSI) }, []byte{0x0B, 0x01, 0xFF, 0x0A}},
	{func() interface{} { return new(cat.TMapSI) }, []byte{0x0B, 0x01, 0xFF, 0x10}},
	// map[string]TIn: length of the struct value, of a string inside it
	{func() interface{} { return new(cat.TMapS) }, []byte{0x0B, 0x01, 0xFF, 0x12}},
	{func() interface{} { return new(cat.TMapS) }, []byte{0x0B, 0x01, 0xFF, 0x12, 0xFF, 0x12}},
	// proto-tagged map entry
	{func() interface{} { return new(cat.TProtoM) }, []byte{0x0A, 0xFF, 0x0A}},
	// []string element length; []TIn element length and a string inside the element
	{func() interface{} { return new(cat.TCounted) }, []byte{0x0B, 0x01}},
	{func() interface{} { return new(cat.TCounted) }, []byte{0x1B, 0x01}},
	{func() interface{} { return new(cat.TCounted) }, []byte{0x1B, 0x01, 0xFF, 0x12}},
	// unknown counted fields (skipped): entry length, count
	{func() interface{} { return new(cat.TIn) }, []byte{0x1B, 0x01}},
	{func() interface{} { return new(cat.TIn) }, []byte{0x1B}},
	{func() interface{} { return new(cat.TNested) }, []byte{0x0A, 0xFF, 0x1B, 0x01}},
	{func() interface{} { return new(cat.TMapSI) }, []byte{0x0B, 0x01, 0xFF, 0x1B, 0x01}},
	// nested struct: inner string length, inner unknown field
	{func() interface{} { return new(cat.TNested) }, []byte{0x0A, 0xFF, 0x12}},
	{func() interface{} { return new(cat.TNested) }, []byte{0x0A, 0xFF, 0x3A}},
	// time inside a struct: unknown length-delimited field inside the time body
	{func() interface{} { return new(cat.TTime) }, []byte{0x0A, 0xFF, 0x1A}},
	// pointer to struct, slice of pointers
	{func() interface{} { return new(cat.TPtrs) }, []byte{0x1A, 0xFF, 0x12}},
	{func() interface{} { return new(cat.TCountedP) }, []byte{0x0B, 0x01, 0xFF, 0x12}},
}

func nestedLongInput(head []byte) []byte {
	pl, rest := 10, 1
	if vrt.Thorough() {
		// thorough: 9- and 10-byte varints, up to two bytes behind them
		pl = 9 + vrt.Choice("prefix", 2)
		rest = vrt.Choice("rest", 3)
	}
	sym := vrt.BytesTail("d", pl+rest, 4)
	for i := 0; i < pl-1; i++ {
		vrt.Assume(sym[i] >= 0x80)
	}
	vrt.Assume(sym[pl-1] < 0x80)
	data := make([]byte, 0, len(head)+len(sym))
	for i, b := range head {
		if b == 0xFF {
			b = byte(len(head) - i - 1 + len(sym))
		}
		data = append(data, b)
	}
	data = append(data, sym...)
	vrt.LoopBound(len(data) + 16)
	vrt.AllocBudget(int64(4096 * (len(data) + 1)))
	return data
}

// H04l_NestedLongPrefix / H04l_NestedLongPrefixD: Unmarshal / Descriptor.Read.
func H04l_NestedLongPrefix()  { nestedLongTotal(false) }
func H04l_NestedLongPrefixD() { nestedLongTotal(true) }

func nestedLongTotal(describe bool) {
	k := nestedLongCases[vrt.Choice("case", len(nestedLongCases))]
	p := newPlenc(cfgDef)
	c, err := p.CodecForType(reflect.TypeOf(k.fresh()).Elem())
	if err != nil {
		vrt.Assert("codec built", false)
		return
	}
	data := nestedLongInput(k.head)
	if describe {
		d := c.Descriptor()
		vrt.Measure(func() { _ = d.Read(nopOut{}, data) })
	} else {
		out := k.fresh()
		vrt.Measure(func() { _ = p.Unmarshal(data, out) })
	}
	vrt.Cover("returned")
}

type strJSONRow struct {
	S string         `plenc:"1"`
	B []byte         `plenc:"2"`
	M map[string]int `plenc:"3"`
	L []string       `plenc:"4"`
}

// H13j_Strings: the whole chain for string payloads: every byte value below
// 0x80 (quotes, backslashes, control characters) as a string field, a map
// key and a slice element goes through Marshal, the Descriptor walk and the
// real JSON outputter and parses back to itself.
func H13j_Strings() {
	c0 := vrt.U8("c")
	vrt.Assume(c0 < 0x80)
	s := string([]byte{'a', c0})
	in := strJSONRow{S: s, M: map[string]int{s: 1}, L: []string{s, ""}}
	p := newPlenc(cfgDef)
	data, err := p.Marshal(nil, &in)
	vrt.Assert("marshal ok", err == nil)
	c, err := p.CodecForType(reflect.TypeOf(in))
	vrt.Assert("codec ok", err == nil)
	if err != nil {
		return
	}
	d := c.Descriptor()
	var out plenccodec.JSONOutput
	vrt.Assert("descriptor walk ok", d.Read(&out, data) == nil)
	js := out.Done()
	vrt.ObserveBytes("json", js)
	toks, ok := jsonParse(js)
	vrt.Assert("output is one valid JSON document", ok)
	if !ok {
		return
	}
	exp := []jtok{{K: tStartObj}, {tName, "S"}, {tString, s}, {tName, "M"}, {K: tStartObj}, {tName, s}, {tNumber, "1"}, {K: tEndObj},
		{tName, "L"}, {K: tStartArr}, {tString, s}, {tString, ""}, {K: tEndArr}, {K: tEndObj}}
	vrt.Assert("document equals the value", sameTokens(exp, toks))
}

type anonRow struct {
	A struct {
		X int `plenc:"1"`
	} `plenc:"1"`
	L []struct {
		Y string `plenc:"1"`
	} `plenc:"2"`
	M map[string]struct {
		Z bool `plenc:"1"`
	} `plenc:"3"`
	P *struct {
		W uint `plenc:"1"`
	} `plenc:"4"`
}

// H14a_Anonymous: anonymous struct types have no type name: their descriptors
// carry an empty TypeName at every position (field, element, map value,
// pointer target); everything else mirrors the definition.
func H14a_Anonymous() {
	p := newPlenc(cfgDef)
	c, err := p.CodecForType(reflect.TypeOf(anonRow{}))
	vrt.Assert("codec ok", err == nil)
	if err != nil {
		return
	}
	got := c.Descriptor()
	leaf := func(idx int, name string, t plenccodec.FieldType) plenccodec.Descriptor {
		return plenccodec.Descriptor{Index: idx, Name: name, Type: t}
	}
	st := func(idx int, name string, e plenccodec.Descriptor) plenccodec.Descriptor {
		return plenccodec.Descriptor{Index: idx, Name: name, Type: plenccodec.FieldTypeStruct, Elements: []plenccodec.Descriptor{e}}
	}
	val := st(2, "value", leaf(1, "Z", plenccodec.FieldTypeBool))
	entry := plenccodec.Descriptor{Type: plenccodec.FieldTypeStruct, LogicalType: plenccodec.LogicalTypeMapEntry,
		Elements: []plenccodec.Descriptor{leaf(1, "key", plenccodec.FieldTypeString), val}}
	ptr := st(4, "P", leaf(1, "W", plenccodec.FieldTypeUint))
	ptr.ExplicitPresence = true
	want := plenccodec.Descriptor{Type: plenccodec.FieldTypeStruct, TypeName: "anonRow", Elements: []plenccodec.Descriptor{
		st(1, "A", leaf(1, "X", plenccodec.FieldTypeInt)),
		{Index: 2, Name: "L", Type: plenccodec.FieldTypeSlice, Elements: []plenccodec.Descriptor{st(0, "", leaf(1, "Y", plenccodec.FieldTypeString))}},
		{Index: 3, Name: "M", Type: plenccodec.FieldTypeSlice, LogicalType: plenccodec.LogicalTypeMap, Elements: []plenccodec.Descriptor{entry}},
		ptr,
	}}
	vrt.Assert("descriptor mirrors the definition; anonymous structs have an empty type name", descEq(&got, &want))
	// descEq does not compare the synthesised map-entry type name; anonymous value types must not leak into it as Go syntax
	en := got.Elements[2].Elements[0].TypeName
	clean := true
	for i := 0; i < len(en); i++ {
		if en[i] == ' ' || en[i] == '{' || en[i] == '"' {
			clean = false
		}
	}
	vrt.Assert("map-entry type name is an identifier, not Go type syntax", clean)
}

// H17p_DefaultOverride_Proc: a registration made through the package-level
// functions before their first use is the one they use, also for a (type,
// tag) pair the default set contains - exactly like an instance configured
// the same way. Runs in a process of its own natively (the package-level
// default is process-wide state); the float32 codec is restored at the end.
func H17p_DefaultOverride_Proc() {
	plenc.RegisterCodec(reflect.TypeOf(float32(0)), markCodecF{})
	f := math.Float32frombits(vrt.U32("f"))
	type row struct {
		F float32 `plenc:"1"`
	}
	in := row{F: f}
	got, err := plenc.Marshal(nil, &in)
	vrt.Assert("package marshal ok", err == nil)
	p := new(plenc.Plenc)
	p.RegisterDefaultCodecs()
	p.RegisterCodec(reflect.TypeOf(float32(0)), markCodecF{})
	want, err := p.Marshal(nil, &in)
	vrt.Assert("instance marshal ok", err == nil)
	vrt.Assert("package-level functions behave like an instance configured the same way", vrt.BytesEq(got, want))
	vrt.Assert("the registered codec is the one used", vrt.BytesEq(got, append(refTag(nil, 0, 1), refMark(nil, math.Float32bits(f))...)))
	plenc.RegisterCodec(reflect.TypeOf(float32(0)), plenccodec.Float32Codec{})
}

// markCodecF: the marker encoding for float32 values (bits as the payload).
type markCodecF struct{}

func (markCodecF) Omit(ptr unsafe.Pointer) bool { return false }
func (markCodecF) Read(data []byte, ptr unsafe.Pointer, wt plenccore.WireType) (int, error) {
	u, n := plenccore.ReadVarUint(data)
	if n <= 0 {
		return 0, errBad
	}
	*(*float32)(ptr) = math.Float32frombits(uint32(u))
	return n, nil
}
func (markCodecF) New() unsafe.Pointer          { return unsafe.Pointer(new(float32)) }
func (markCodecF) WireType() plenccore.WireType { return plenccore.WTVarInt }
func (markCodecF) Descriptor() plenccodec.Descriptor {
	return plenccodec.Descriptor{Type: plenccodec.FieldTypeUint}
}
func (markCodecF) Size(ptr unsafe.Pointer, tag []byte) int { return len(tag) + 6 }
func (markCodecF) Append(data []byte, ptr unsafe.Pointer, tag []byte) []byte {
	data = append(data, tag...)
	return plenccore.AppendVarUint(data, markVal(math.Float32bits(*(*float32)(ptr))))
}

// the interning histories also decide C10's "nothing decoded earlier through
// the same instance can influence a later result" for the interning tables
func H10h_InternHistory() { H19_History() }
func H10h_InternLong()    { H19_Long() }

// H03t_TimeExtra: a time body written by a newer writer carries fields the
// reader does not know (a varint, a length-delimited one, fixed 32/64, before,
// between and after the known ones): they are skipped exactly and the time
// and the fields around it decode as if they were not there.
func H03t_TimeExtra() {
	p := newPlenc(cfgDef)
	a := smallSym("A")
	b := vrt.String("B", 1)
	sec, ns := vrt.I64("sec"), vrt.I64("nsec")
	vrt.Assume(vrt.And(ns >= 0, ns < 1000000000))
	vrt.Assume(vrt.And(sec >= -62135596800, sec < 253402300800))
	x := vrt.U64("x")
	extra := func(buf []byte, k int) []byte {
		switch k {
		case 0:
			return refVarint(refTag(buf, 0, 3), x)
		case 1:
			return refLenField(buf, 4, []byte{byte(x), 0x80, 0xFF})
		case 2:
			return refLE64(refTag(buf, 1, 5), x)
		default:
			return refLE32(refTag(buf, 5, 6), uint32(x))
		}
	}
	k := vrt.Choice("extra", 4)
	var body []byte
	switch vrt.Choice("where", 3) {
	case 0:
		body = extra(body, k)
		body = refVarint(refTag(body, 0, 1), refZigZag(sec))
		body = refVarint(refTag(body, 0, 2), refZigZag(ns))
	case 1:
		body = refVarint(refTag(body, 0, 1), refZigZag(sec))
		body = extra(body, k)
		body = refVarint(refTag(body, 0, 2), refZigZag(ns))
	default:
		body = refVarint(refTag(body, 0, 1), refZigZag(sec))
		body = refVarint(refTag(body, 0, 2), refZigZag(ns))
		body = extra(body, k)
	}
	data := refVarint(refTag(nil, 0, 1), refZigZag(int64(a)))
	data = refLenField(data, 2, body)
	data = refLenField(data, 3, []byte(b))
	var out cat.KxTime
	vrt.Assert("decodes without error", p.Unmarshal(data, &out) == nil)
	vrt.Assert("fields around the time", vrt.And(out.A == a, out.B == b))
	vrt.Assert("the time itself", vrt.And(out.X.Unix() == sec, int64(out.X.Nanosecond()) == ns))
}

// ------------------------------------------------------------- round 6

// H01b_DeepChain: a type that recurses through a pointer, nested far deeper
// than the per-type harnesses go (12, 33 and 45 levels), every node
// carrying the same integer of a 1-, 2-, 5- or 10-byte varint (the nested
// bodies cross the 128-byte length-prefix step at different depths; concrete
// values, enumerated): bytes == documented encoding, round trip.
func H01b_DeepChain() {
	depth := []int{12, 33, 45}[vrt.Choice("depth", 3)]
	// node values of 1-, 2-, 5- and 10-byte varints (concrete: with a symbolic
	// value the nested size terms of 70 levels did not simplify within minutes)
	v := []int{1, 100, 1 << 30, math.MinInt64}[vrt.Choice("value", 4)]
	var x V_TRecP
	cur := &x.V
	for i := 0; i < depth; i++ {
		cur.B = v
		if i+1 < depth {
			cur.P = new(cat.TRecP)
			cur = cur.P
		}
	}
	p := newPlenc(cfgDef)
	data, err := p.Marshal(nil, &x.V)
	vrt.Assert("marshal ok", err == nil)
	vrt.Assert("bytes == documented encoding", vrt.BytesEq(data, x.Ref(nil, refOf(cfgDef, 0))))
	var out cat.TRecP
	vrt.Assert("unmarshal ok", p.Unmarshal(data, &out) == nil)
	n, ok := 0, true
	for c := &out; c != nil; c = c.P {
		n++
		ok = vrt.And(ok, c.B == v)
	}
	vrt.Assert("round trip", vrt.And(ok, n == depth))
}

func H02b_DeepChain() { H01b_DeepChain() }
func H05b_DeepChain() { H01b_DeepChain() }

// H10m_EmptyPresent: a field that is present in the data with zero length
// (foreign or hand-built data; plenc itself omits empty plain strings)
// overwrites the target's prior value like any other present field - plain
// string, byte slice and interned string alike.
func H10m_EmptyPresent() {
	p := newPlenc(cfgDef)
	old := vrt.String("old", 1)
	which := vrt.Choice("present", 8) // bit i: field i+1 present with zero length
	var data []byte
	for i := 0; i < 3; i++ {
		if which&(1<<uint(i)) != 0 {
			data = refLenField(data, i+1, nil)
		}
	}
	dst := cat.TStrs{A: "a" + old, B: []byte("b" + old), C: "c" + old}
	vrt.Assert("unmarshal ok", p.Unmarshal(data, &dst) == nil)
	expA, expB, expC := "a"+old, "b"+old, "c"+old
	if which&1 != 0 {
		expA = ""
	}
	if which&2 != 0 {
		expB = ""
	}
	if which&4 != 0 {
		expC = ""
	}
	vrt.Assert("present-but-empty fields are overwritten, absent ones keep their value",
		vrt.And(dst.A == expA, vrt.And(string(dst.B) == expB, dst.C == expC)))
}
