// Package cat is the catalogue of types the per-type harnesses are generated
// for. Every codec kind plenc has appears in every position it can occupy.
// Tags are plenc tags; names starting with T are catalogue roots.
package cat

import (
	"time"

	"github.com/unravelin/null"
)

type MyInt int
type MyStr string
type MyBool bool
type MyF float64
type MyU16 uint16

type TIn struct {
	X int    `plenc:"1"`
	Y string `plenc:"2"`
}

type TInts struct {
	A int    `plenc:"1"`
	B uint32 `plenc:"2"`
	C int8   `plenc:"3,flat"`
}

type TInts2 struct {
	A int64  `plenc:"1,flat"`
	B int16  `plenc:"2"`
	C uint64 `plenc:"3"`
	D uint8  `plenc:"4"`
}

type TInts3 struct {
	A int32  `plenc:"1"`
	B uint16 `plenc:"2"`
	C uint   `plenc:"3"`
	D int16  `plenc:"4,flat"`
}

type TFloats struct {
	A float64 `plenc:"1"`
	B float32 `plenc:"2"`
	C bool    `plenc:"3"`
}

type TStrs struct {
	A string `plenc:"1"`
	B []byte `plenc:"2"`
	C string `plenc:"3,intern"`
}

type TPtrs struct {
	A *int    `plenc:"1"`
	B *string `plenc:"2"`
	C *TIn    `plenc:"3"`
}

type TPtrs2 struct {
	A *float64   `plenc:"1"`
	B *bool      `plenc:"2"`
	C *[]byte    `plenc:"3"`
	D *time.Time `plenc:"4"`
}

type TPacked struct {
	A []int    `plenc:"1"`
	B []uint16 `plenc:"2"`
	C []bool   `plenc:"3"`
}

type TFixed struct {
	A []float64 `plenc:"1"`
	B []float32 `plenc:"2"`
}

type TCounted struct {
	A []string `plenc:"1"`
	B [][]byte `plenc:"2"`
	C []TIn    `plenc:"3"`
}

type TCountedP struct {
	A []*TIn `plenc:"1"`
	C []*int `plenc:"3"`
}

type TTimes struct {
	B []time.Time `plenc:"2"`
}

type TNested struct {
	A TIn `plenc:"1"`
	B int `plenc:"2"`
}

type TSS struct {
	A [][]uint    `plenc:"1"`
	B [][]float32 `plenc:"2"`
}

type TRec struct {
	A []TRec `plenc:"1"`
	B int    `plenc:"2"`
}

type TRecP struct {
	P *TRecP `plenc:"1"`
	B int    `plenc:"2"`
}

type TMapSI struct {
	M map[string]int `plenc:"1"`
	Z int            `plenc:"2"`
}

type TMapIS struct {
	M map[int]string `plenc:"1"`
}

type TKey struct {
	A int `plenc:"1"`
	B int `plenc:"2"`
}

type TMapK struct {
	M map[TKey]int `plenc:"1"`
}

type TMapP struct {
	M map[int]*string `plenc:"1"`
}

type TMapS struct {
	M map[string]TIn `plenc:"1"`
}

type TMapL struct {
	M map[string][]int `plenc:"1"`
}

type TTime struct {
	A time.Time `plenc:"1"`
	B int       `plenc:"2"`
}

type TProtoS struct {
	S []string `plenc:"1,proto"`
	Z int      `plenc:"2"`
}

type TProtoM struct {
	M map[string]int `plenc:"1,proto"`
	Z int            `plenc:"2"`
}

type TProtoT struct {
	T []TIn  `plenc:"1,proto"`
	U []*TIn `plenc:"2,proto"`
}

type TNull struct {
	I null.Int   `plenc:"1"`
	B null.Bool  `plenc:"2"`
	F null.Float `plenc:"3"`
}

type TNull2 struct {
	S null.String `plenc:"1"`
	T null.Time   `plenc:"2"`
	U null.String `plenc:"3,intern"`
}

type TUnexp struct {
	a int
	B int    `plenc:"1"`
	C int    `plenc:"-"`
	D string `plenc:"2"`
}

// SetUnexported lets harnesses put a value in the unexported field.
func (t *TUnexp) SetUnexported(v int) { t.a = v }

// Unexported reads it back.
func (t *TUnexp) Unexported() int { return t.a }

type TNamed struct {
	A MyInt   `plenc:"1"`
	B MyStr   `plenc:"2"`
	C []MyInt `plenc:"3"`
	D MyBool  `plenc:"4"`
	E MyF     `plenc:"5"`
}

// TBigIdx uses large and sparse indexes (multi-byte tags).
type TBigIdx struct {
	A int    `plenc:"15"`
	B string `plenc:"16"`
	C uint   `plenc:"2047"`
	D bool   `plenc:"2048"`
}

// Top-level non-struct roots.
type TopInt = int
type TopString = string
type TopInts = []int
type TopStrings = []string
type TopIns = []TIn
type TopMapSI = map[string]int

// ---- C03: schema evolution pairs. Kx* are the "old" types (a field of every
// wire shape at index 2, between two surviving fields); KxPrime is the "new"
// type: field 2 removed, fields renamed and reordered, a field added.

type KxVarint struct {
	A int    `plenc:"1"`
	X int    `plenc:"2"`
	B string `plenc:"3"`
}

type KxFlat struct {
	A int    `plenc:"1"`
	X uint64 `plenc:"2"`
	B string `plenc:"3"`
}

type KxF32 struct {
	A int     `plenc:"1"`
	X float32 `plenc:"2"`
	B string  `plenc:"3"`
}

type KxF64 struct {
	A int     `plenc:"1"`
	X float64 `plenc:"2"`
	B string  `plenc:"3"`
}

type KxStr struct {
	A int    `plenc:"1"`
	X string `plenc:"2"`
	B string `plenc:"3"`
}

type KxStruct struct {
	A int    `plenc:"1"`
	X TIn    `plenc:"2"`
	B string `plenc:"3"`
}

type KxPacked struct {
	A int    `plenc:"1"`
	X []int  `plenc:"2"`
	B string `plenc:"3"`
}

type KxFixed struct {
	A int       `plenc:"1"`
	X []float32 `plenc:"2"`
	B string    `plenc:"3"`
}

type KxCounted struct {
	A int      `plenc:"1"`
	X []string `plenc:"2"`
	B string   `plenc:"3"`
}

type KxCountedS struct {
	A int    `plenc:"1"`
	X []TIn  `plenc:"2"`
	B string `plenc:"3"`
}

type KxMap struct {
	A int            `plenc:"1"`
	X map[string]int `plenc:"2"`
	B string         `plenc:"3"`
}

type KxTime struct {
	A int       `plenc:"1"`
	X time.Time `plenc:"2"`
	B string    `plenc:"3"`
}

type KxPtr struct {
	A int    `plenc:"1"`
	X *TIn   `plenc:"2"`
	B string `plenc:"3"`
}

// KxPrime: the evolved type.
type KxPrime struct {
	Bee string `plenc:"3"`
	Aye int    `plenc:"1"`
	New int    `plenc:"9"`
}

// nested positions
type KxNest struct {
	In KxStr `plenc:"1"`
	Z  int   `plenc:"2"`
}

type KxNestPrime struct {
	Zed   int     `plenc:"2"`
	Inner KxPrime `plenc:"1"`
}

type KxElem struct {
	L []KxPacked `plenc:"1"`
	Z int        `plenc:"2"`
}

type KxElemPrime struct {
	L []KxPrime `plenc:"1"`
	Z int       `plenc:"2"`
}

type KxVal struct {
	M map[string]KxStruct `plenc:"1"`
	Z int                 `plenc:"2"`
}

type KxValPrime struct {
	M map[string]KxPrime `plenc:"1"`
	Z int                `plenc:"2"`
}

// ---- presence positions (C09)

type TPtrsS struct {
	A *int    `plenc:"1"`
	B *string `plenc:"2"`
}

type TPtrNest struct {
	P *TPtrsS `plenc:"1"`
	Q int     `plenc:"2"`
}

type TMapPS struct {
	M map[string]*int `plenc:"1"`
}

type TMapPT struct {
	M map[int]*TIn `plenc:"1"`
}

type TNullNest struct {
	N TNull  `plenc:"1"`
	P *TNull `plenc:"2"`
}

// TJsonTag: descriptor names come from json tags.
type TJsonTag struct {
	A int    `plenc:"1" json:"alpha"`
	B string `plenc:"2" json:",omitempty"`
	C bool   `plenc:"3" json:"-"`
	D uint8  `plenc:"4" json:"delta,omitempty"`
}

// ---- shapes added after the first seeded-change campaign

// named byte slices are NOT []byte to plenc: they are packed varint slices
type MyBytes []byte

type TNamedBytes struct {
	A MyBytes `plenc:"1"`
	B []MyU8  `plenc:"2"`
	C []byte  `plenc:"3"`
}

type MyU8 uint8

// pointer-shaped structs nested in pointer-shaped structs (direct interface words)
type TWrapIn struct {
	P *int `plenc:"1"`
}

type TWrap struct {
	In TWrapIn `plenc:"1"`
}

// fields declared out of index order
type TDesc struct {
	C string `plenc:"3"`
	A int    `plenc:"1"`
	B uint   `plenc:"2"`
}

// the same slice / map type with and without the proto option in one struct
type TProtoMix struct {
	A []string `plenc:"1,proto"`
	B []string `plenc:"2"`
}

type TProtoMix2 struct {
	B []string `plenc:"1"`
	A []string `plenc:"2,proto"`
}

// full-width flat integers (the descriptor renders these exactly)
type TFlat64 struct {
	A int64 `plenc:"1,flat"`
	B int   `plenc:"2,flat"`
}

type TopBytes = []byte

// ---- C03: the removed field is the last one / declared first with the highest index

type KxLastCounted struct {
	A int      `plenc:"1"`
	B string   `plenc:"3"`
	X []string `plenc:"2"`
}

type KxLastMap struct {
	A int            `plenc:"1"`
	B string         `plenc:"3"`
	X map[string]int `plenc:"2"`
}

type KxLastStructs struct {
	A int    `plenc:"1"`
	B string `plenc:"3"`
	X []TIn  `plenc:"2"`
}

type KxLastStr struct {
	A int    `plenc:"1"`
	B string `plenc:"3"`
	X string `plenc:"2"`
}

type KxFirstHigh struct {
	X int    `plenc:"12"`
	A int    `plenc:"1"`
	B string `plenc:"3"`
}

// KxPrimeAsc: evolved type with fields in ascending index order
type KxPrimeAsc struct {
	Aye int    `plenc:"1"`
	Bee string `plenc:"3"`
	New int    `plenc:"9"`
}

// ---- shapes added after the second seeded-change campaign

// field indexes at the edges where lookup-table tricks change behaviour
type TIdxEdges struct {
	A bool `plenc:"63"`
	B bool `plenc:"64"`
	C bool `plenc:"65"`
	D bool `plenc:"999"`
	E bool `plenc:"1000"`
	F bool `plenc:"1001"`
	G bool `plenc:"1024"`
}

// pointers to packed slices
type TPtrs3 struct {
	A *[]int   `plenc:"1"`
	B *[]bool  `plenc:"2"`
	C *float32 `plenc:"3"`
}

// a derived type used under different options inside one struct, maps included
type TProtoMix3 struct {
	A []string            `plenc:"1,proto"`
	M map[string][]string `plenc:"2"`
}

type TProtoMix4 struct {
	M map[string]int `plenc:"1"`
	P map[string]int `plenc:"2,proto"`
}

// ---- shapes added after the third seeded-change campaign

// the flat option on a slice field selects nothing for its elements
type TFlatSlice struct {
	A []int64 `plenc:"1,flat"`
	B []int8  `plenc:"2,flat"`
	C int64   `plenc:"3,flat"`
}

// zero-sized fields share their offset with the next field
type TZero struct {
	nc struct{}
	A  int `plenc:"1"`
	z  [0]int
	B  string   `plenc:"2"`
	S  struct{} `plenc:"-"`
	C  bool     `plenc:"3"`
}

// instantiated generic structs
type KPair[K comparable, V any] struct {
	K K `plenc:"1"`
	V V `plenc:"2"`
}

type TPairSI = KPair[string, int]

type TPairs struct {
	P KPair[int, string]   `plenc:"1"`
	Q []KPair[string, int] `plenc:"2"`
}

// ---- shapes added in the fourth campaign: every remaining basic kind as a
// named type, more map key/value kinds, embedded structs, double pointers,
// pointer elements of length-delimited kinds, more index edges, a wide struct
// with out-of-order indexes.

type (
	MyI8  int8
	MyI16 int16
	MyI32 int32
	MyI64 int64
	MyU   uint
	MyU32 uint32
	MyU64 uint64
	MyF32 float32
)

type TNamed2 struct {
	A MyI8  `plenc:"1"`
	B MyI16 `plenc:"2"`
	C MyI32 `plenc:"3"`
	H MyF32 `plenc:"8"`
}

type TNamed3 struct {
	D MyI64 `plenc:"4"`
	F MyU32 `plenc:"6"`
}

type TNamed4 struct {
	E MyU   `plenc:"5"`
	G MyU64 `plenc:"7"`
}

// remaining integer widths as plain fields and as slice elements
type TInts4 struct {
	A int64   `plenc:"1"`
	B int32   `plenc:"2,flat"`
	C []int32 `plenc:"3"`
}

type TMapBool struct {
	A map[bool]int `plenc:"1"`
}

type TMapU8F struct {
	B map[uint8]float64 `plenc:"2"`
}

type TMapNm struct {
	C map[MyI8]MyU64 `plenc:"3"`
}

type TMapMyS struct {
	A map[MyStr]MyStr `plenc:"1"`
}

type TMapB struct {
	B map[string][]byte `plenc:"2"`
}

type TMapT struct {
	C map[string]time.Time `plenc:"3"`
}

// embedded (anonymous) struct field carrying a tag
type TEmb struct {
	TIn `plenc:"1"`
	Z   int `plenc:"2"`
}

type TPP struct {
	P **int     `plenc:"1"`
	Q *[]string `plenc:"2"`
}

type TPS struct {
	S []*string    `plenc:"1"`
	T []*time.Time `plenc:"2"`
	U []MyStr      `plenc:"3"`
}

type TMapPL struct {
	M map[string]*[]int `plenc:"1"`
}

type TSSP struct {
	T [][]*int `plenc:"2"`
	U []*[]int `plenc:"3"`
}

// more index edges: powers of two and their neighbours
type TIdxEdges2 struct {
	A bool `plenc:"31"`
	B bool `plenc:"32"`
	C bool `plenc:"33"`
	D bool `plenc:"127"`
	E bool `plenc:"128"`
	F bool `plenc:"129"`
	G bool `plenc:"255"`
	H bool `plenc:"256"`
	I bool `plenc:"257"`
}

type TIdxEdges3 struct {
	A bool `plenc:"511"`
	B bool `plenc:"512"`
	C bool `plenc:"513"`
	D bool `plenc:"4095"`
	E bool `plenc:"4096"`
	F bool `plenc:"4097"`
	G bool `plenc:"16383"`
	H bool `plenc:"16384"`
}

// more than eight fields, indexes not in declaration order
type TWide struct {
	A bool  `plenc:"1"`
	B bool  `plenc:"2"`
	I uint8 `plenc:"9"`
	C bool  `plenc:"3"`
	D bool  `plenc:"4"`
	H bool  `plenc:"8"`
	E bool  `plenc:"5"`
	F bool  `plenc:"6"`
	G bool  `plenc:"7"`
}

// C03: both sides use indexes of 64 and above; the reader dropped 100 and 101
type KxHigh struct {
	A  int    `plenc:"1"`
	X1 int    `plenc:"100"`
	X2 string `plenc:"101"`
	B  int    `plenc:"102"`
	C  string `plenc:"103"`
}

type KxHighPrime struct { // reordered: the high indexes are declared out of ascending order
	D int    `plenc:"200"`
	B int    `plenc:"102"`
	A int    `plenc:"1"`
	C string `plenc:"103"`
}

// ---- shapes added after the fifth campaign

// indexes above 255 declared out of ascending order
type TIdxHighDesc struct {
	A bool `plenc:"1000"`
	B bool `plenc:"300"`
	C bool `plenc:"2000"`
	D bool `plenc:"256"`
	E bool `plenc:"7"`
}

// a map whose key and value are both fixed-width on the wire
type TMapFF struct {
	M map[float32]float64 `plenc:"1"`
}

// ---- shapes added after the sixth campaign

// field index 0 is legal (its tag byte is the wire type alone)
type TIdx0 struct {
	A int    `plenc:"0"`
	B string `plenc:"1"`
	C *bool  `plenc:"2"`
}
