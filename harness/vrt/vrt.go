// Package vrt is the harness API. Under the symbolic engine every function
// here is an intrinsic (the bodies below are never executed); compiled
// natively the same harness replays a concrete assignment produced by the
// solver against the real library.
package vrt

import (
	"encoding/hex"
	"fmt"
	"reflect"
	"runtime"
	"strconv"
)

// Entry is one nondeterministic value in call order.
type Entry struct {
	Name string `json:"name"`
	Kind string `json:"kind"`
	Val  uint64 `json:"val"`
}

// Result is what a native replay reports.
type Result struct {
	Harness  string     `json:"harness"`
	Asserts  []AssertEv `json:"asserts"`
	Observes []ObsEv    `json:"observes"`
	Covers   []string   `json:"covers"`
	Panic    string     `json:"panic,omitempty"`
	Timeout  bool       `json:"timeout,omitempty"`
	Mismatch string     `json:"mismatch,omitempty"`
	Infeasible bool     `json:"infeasible,omitempty"`
	Measured uint64     `json:"measured_alloc,omitempty"`
	NativeAsserts []AssertEv `json:"native_asserts,omitempty"`
}

type AssertEv struct {
	Label string `json:"label"`
	OK    bool   `json:"ok"`
}

type ObsEv struct {
	Label string `json:"label"`
	Hex   string `json:"hex"`
}

type state struct {
	entries []Entry
	pos     int
	res     *Result
	counts  map[string]int
	nativeOnly bool
}

var cur *state

// Begin starts a native replay with the given assignment.
func Begin(harness string, entries []Entry) {
	cur = &state{entries: entries, res: &Result{Harness: harness}, counts: map[string]int{}}
}

// End finishes the replay and returns what was observed.
func End() *Result { r := cur.res; cur = nil; return r }

// Current returns the result so far (used when the harness panics).
func Current() *Result {
	if cur == nil {
		return nil
	}
	return cur.res
}

type infeasible struct{}

// IsInfeasible reports whether a recovered panic value is the marker for a
// failed Assume.
func IsInfeasible(r interface{}) bool { _, ok := r.(infeasible); return ok }

func next(name, kind string) uint64 {
	if cur == nil {
		panic("vrt: nondet outside a replay")
	}
	n := cur.counts[name]
	cur.counts[name] = n + 1
	full := name
	if n > 0 {
		full = fmt.Sprintf("%s~%d", name, n)
	}
	if cur.pos >= len(cur.entries) {
		// values the solver did not have to constrain default to zero
		cur.pos++
		return 0
	}
	e := cur.entries[cur.pos]
	cur.pos++
	if e.Name != full || e.Kind != kind {
		if cur.res.Mismatch == "" {
			cur.res.Mismatch = fmt.Sprintf("replay entry %d is %s/%s, harness asked for %s/%s", cur.pos-1, e.Name, e.Kind, full, kind)
		}
	}
	return e.Val
}

func U64(name string) uint64 { return next(name, "u64") }
func I64(name string) int64  { return int64(next(name, "u64")) }
func Int(name string) int    { return int(next(name, "u64")) }
func Uint(name string) uint  { return uint(next(name, "u64")) }
func U32(name string) uint32 { return uint32(next(name, "u32")) }
func I32(name string) int32  { return int32(next(name, "u32")) }
func U16(name string) uint16 { return uint16(next(name, "u16")) }
func I16(name string) int16  { return int16(next(name, "u16")) }
func U8(name string) uint8   { return uint8(next(name, "u8")) }
func I8(name string) int8    { return int8(next(name, "u8")) }
func Bool(name string) bool  { return next(name, "bool") != 0 }

// Choice is an enumerated (not solver-decided) alternative in [0,n).
func Choice(name string, n int) int {
	if cur == nil {
		panic("vrt: nondet outside a replay")
	}
	if cur.pos >= len(cur.entries) {
		cur.pos++
		return 0
	}
	e := cur.entries[cur.pos]
	cur.pos++
	if e.Name != name || e.Kind != "choice" {
		if cur.res.Mismatch == "" {
			cur.res.Mismatch = fmt.Sprintf("replay entry %d is %s/%s, harness asked for choice %s", cur.pos-1, e.Name, e.Kind, name)
		}
	}
	return int(e.Val)
}

// Bytes returns n fresh arbitrary bytes (cap == len).
func Bytes(name string, n int) []byte {
	b := make([]byte, n)
	for i := range b {
		b[i] = U8(fmt.Sprintf("%s_%d", name, i))
	}
	return b
}

// String returns a string of n arbitrary bytes.
func String(name string, n int) string { return string(Bytes(name, n)) }

func Assume(c bool) {
	if !c {
		panic(infeasible{})
	}
}

func Assert(label string, c bool) {
	if cur.nativeOnly {
		cur.res.NativeAsserts = append(cur.res.NativeAsserts, AssertEv{label, c})
		return
	}
	cur.res.Asserts = append(cur.res.Asserts, AssertEv{label, c})
}

func And(a, b bool) bool     { return a && b }
func Or(a, b bool) bool      { return a || b }
func Implies(a, b bool) bool { return !a || b }
func IteU64(c bool, a, b uint64) uint64 {
	if c {
		return a
	}
	return b
}
func IteInt(c bool, a, b int) int {
	if c {
		return a
	}
	return b
}

func BytesEq(a, b []byte) bool { return string(a) == string(b) }

func Observe(label string, v uint64) {
	cur.res.Observes = append(cur.res.Observes, ObsEv{label, fmt.Sprintf("%x", v)})
}
func ObserveBytes(label string, b []byte) {
	cur.res.Observes = append(cur.res.Observes, ObsEv{label, hex.EncodeToString(b)})
}
func ObserveString(label string, s string) { ObserveBytes(label, []byte(s)) }
func Cover(label string)                   { cur.res.Covers = append(cur.res.Covers, label) }

func LoopBound(n int)     {}

// StepLimit raises the engine's per-path instruction budget for harnesses
// with long concrete histories (the budget stays an unwinding assertion).
func StepLimit(n int64) {}
func AllocBudget(n int64) {}
func MapOrder(fork bool)  {}

// Symbolic reports whether the harness runs under the symbolic engine.
func Symbolic() bool { return false }

// Thorough reports whether the harness runs at the thorough bounds. Natively
// the replay job says which bounds the replayed path was explored with.
func Thorough() bool { return NativeThorough }

// NativeThorough is set by the replay runner from the job.
var NativeThorough bool

// Mid reports whether a thorough-tier harness runs at the intermediate bounds
// (the engine's fallback for a variant that exceeded its budget).
func Mid() bool { return NativeMid }

// NativeMid is set by the replay runner from the job.
var NativeMid bool

// BytesTail returns n arbitrary bytes in a buffer with `tail` bytes of spare
// capacity. Under the engine the spare bytes are poisoned (any read of them is
// a read outside the input); natively they hold TailFill.
func BytesTail(name string, n, tail int) []byte {
	b := make([]byte, n, n+tail)
	for i := range b {
		b[i] = U8(fmt.Sprintf("%s_%d", name, i))
	}
	t := b[n : n+tail]
	for i := range t {
		t[i] = TailFill
	}
	return b
}

// TailFill is the byte BytesTail puts in the spare capacity natively.
var TailFill byte = 0xA5

// Measure runs f; natively the bytes allocated while it runs are recorded.
func Measure(f func()) {
	var a, b runtime.MemStats
	runtime.ReadMemStats(&a)
	f()
	runtime.ReadMemStats(&b)
	if cur != nil {
		cur.res.Measured += b.TotalAlloc - a.TotalAlloc
	}
}

// NativeOnly runs f only in a native replay (the engine skips it).
func NativeOnly(f func()) {
	cur.nativeOnly = true
	defer func() { cur.nativeOnly = false }()
	f()
}

// FieldSpec describes one field of a struct type built at run time.
type FieldSpec struct {
	Name     string
	Type     reflect.Type
	Plenc    string // text of the plenc tag (arbitrary bytes)
	JSON     string
	HasPlenc bool
	HasJSON  bool
}

// StructOf builds a struct type. Natively this is reflect.StructOf with the
// tag texts quoted into a conventional struct tag; under the engine the tag
// texts stay symbolic.
func StructOf(fields []FieldSpec) reflect.Type {
	sf := make([]reflect.StructField, len(fields))
	for i, f := range fields {
		tag := ""
		if f.HasPlenc {
			tag = "plenc:" + strconv.Quote(f.Plenc)
		}
		if f.HasJSON {
			if tag != "" {
				tag += " "
			}
			tag += "json:" + strconv.Quote(f.JSON)
		}
		sf[i] = reflect.StructField{Name: f.Name, Type: f.Type, Tag: reflect.StructTag(tag)}
	}
	return reflect.StructOf(sf)
}

// Variant declares that the harness has n variants (thorough tier) and returns
// the one being explored; natively it is replayed like a Choice.
func Variant(n int) int {
	if cur == nil {
		panic("vrt: nondet outside a replay")
	}
	if cur.pos >= len(cur.entries) {
		cur.pos++
		return 0
	}
	e := cur.entries[cur.pos]
	cur.pos++
	if e.Kind != "variant" {
		if cur.res.Mismatch == "" {
			cur.res.Mismatch = fmt.Sprintf("replay entry %d is %s/%s, harness asked for the variant", cur.pos-1, e.Name, e.Kind)
		}
	}
	return int(e.Val)
}
